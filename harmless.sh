#!/bin/bash
# Must-stay-green corpus: every patch in harmless/<id>/ is a behaviour-preserving edit (renamed local, shifted lines, reordered
# independent statements, extra comment); applied to a scratch copy of /repo the quick check must still exit 0.
set -u
cd /verif
SCR=$(mktemp -d "${TMPDIR:-/tmp}/verif-harmless-XXXXXX"); trap 'rm -rf "$SCR"' EXIT
rc=0; shopt -s nullglob
for p in harmless/${1:-*}/*.patch; do
  ID=$(basename $(dirname $p))
  rm -rf "$SCR/repo"; mkdir -p "$SCR/repo"
  (cd "${VERIF_REPO:-/repo}" && git ls-files -z --cached --others --exclude-standard | xargs -0 cp --parents -t "$SCR/repo" 2>/dev/null)
  if ! (cd "$SCR/repo" && patch -p1 -s < "/verif/$p"); then echo "HARMLESS $p: patch does not apply (skipped)"; continue; fi
  if ! (cd "$SCR/repo" && GOFLAGS=-mod=mod GOPROXY=off go build ./... >/dev/null 2>&1); then echo "HARMLESS $p: does not compile (bad patch)"; rc=3; continue; fi
  out=$(bin/govc verify -property "$ID" -tier quick -repo "$SCR/repo" -noevidence 2>&1); c=$?
  if [ $c -eq 0 ]; then echo "HARMLESS $p: stays green"; else echo "HARMLESS $p: FALSE ALARM (exit $c)"; echo "$out" | grep -E "VIOLATION|UNDECIDED|BROKEN" | head -3 | cut -c1-300; rc=4; fi
done
exit $rc
