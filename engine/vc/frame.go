package vc

import (
	"go/types"

	"golang.org/x/tools/go/ssa"

	"verif/engine/spec"
)

// contractFrame turns the `modifies` clause of a contract into modKeys (used where the frame is needed without a
// call site: loop havoc, callers without contract application). Anything it cannot resolve becomes "everything".
func (e *Engine) contractFrame(ct *spec.FuncContract, sig *types.Signature, fn *ssa.Function, ms *modset) {
	e.contractFrameFor(ct, ct, sig, fn, ms)
}

// contractFrameFor: ct may be a filtered copy of the registered contract orig.
func (e *Engine) contractFrameFor(ct, orig *spec.FuncContract, sig *types.Signature, fn *ssa.Function, ms *modset) {
	names := formalNames(ct, fn, sig, sig.Recv() != nil && fn == nil)
	typeOf := func(name string) types.Type {
		var ts []types.Type
		if fn != nil && len(fn.Params) > 0 {
			for _, p := range fn.Params {
				ts = append(ts, p.Type())
			}
		} else {
			if sig.Recv() != nil {
				ts = append(ts, sig.Recv().Type())
			}
			for i := 0; i < sig.Params().Len(); i++ {
				ts = append(ts, sig.Params().At(i).Type())
			}
		}
		for i, n := range names {
			if n == name && i < len(ts) {
				return ts[i]
			}
		}
		return nil
	}
	for _, m := range ct.Modifies {
		switch m.Op {
		case "ghost":
			ms.add(modKey{kind: "G", t: types.Typ[types.Invalid], field: 0, name: m.Tok})
		case "idx":
			if m.Args[0].Op == "id" {
				if t := typeOf(m.Args[0].Tok); t != nil {
					if sl, ok := unalias(t).Underlying().(*types.Slice); ok {
						ms.add(modKey{kind: "E", t: sl.Elem()})
						continue
					}
				}
			}
			ms.all = true
		case "sel":
			if m.Args[0].Op == "id" {
				if t := typeOf(m.Args[0].Tok); t != nil {
					if p, ok := unalias(t).Underlying().(*types.Pointer); ok {
						if st, ok := unalias(p.Elem()).Underlying().(*types.Struct); ok {
							if idx, path := findField(st, m.Tok); idx >= 0 && len(path) == 1 {
								ft := st.Field(idx).Type()
								if isAggregate(ft) {
									ms.add(modKey{kind: "O", t: ft})
								} else {
									ms.add(modKey{kind: "F", t: p.Elem(), field: idx})
								}
								continue
							}
						}
					}
				}
			}
			ms.all = true
		case "un":
			if m.Tok == "*" && m.Args[0].Op == "un" && m.Args[0].Tok == "&" && m.Args[0].Args[0].Op == "id" && fn != nil {
				// *&v : the cell of a captured variable
				done := false
				for _, fv := range fn.FreeVars {
					if fv.Name() == m.Args[0].Args[0].Tok {
						if p, ok := unalias(fv.Type()).Underlying().(*types.Pointer); ok {
							if isAggregate(p.Elem()) {
								ms.add(modKey{kind: "O", t: p.Elem()})
							} else {
								ms.add(modKey{kind: "C", t: p.Elem()})
							}
							done = true
						}
					}
				}
				if done {
					continue
				}
			}
			if m.Tok == "*" && m.Args[0].Op == "id" {
				if t := typeOf(m.Args[0].Tok); t != nil {
					if p, ok := unalias(t).Underlying().(*types.Pointer); ok {
						if isAggregate(p.Elem()) {
							ms.add(modKey{kind: "O", t: p.Elem()})
						} else {
							ms.add(modKey{kind: "C", t: p.Elem()})
						}
						continue
					}
				}
			}
			ms.all = true
		case "call":
			if m.Args[0].Op == "id" && m.Args[0].Tok == "held" {
				continue // lock state is tracked separately
			}
			if m.Args[0].Op == "id" && m.Args[0].Tok == "fields" {
				var pkg *types.Package
				if fn != nil && fn.Pkg != nil {
					pkg = fn.Pkg.Pkg
				} else if fn != nil && fn.Parent() != nil && fn.Parent().Pkg != nil {
					pkg = fn.Parent().Pkg.Pkg
				}
				if p := e.ContractPkg[orig]; p != nil {
					pkg = p
				}
				if keys, err := e.fieldsKeys(pkg, m.Args[1:]); err == nil {
					for _, k := range keys {
						ms.add(k)
					}
					continue
				}
			}
			ms.all = true
		default:
			ms.all = true
		}
	}
}
