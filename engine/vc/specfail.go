package vc

import (
	"fmt"

	"verif/engine/spec"
)

// obligeSpecError: a contract clause that can no longer be evaluated on the code (e.g. it names a variable the function
// no longer has) yields a failed obligation under the name the clause's obligation normally has, so that a baseline
// obligation that silently disappears is reported instead of skipped.
func (f *FnVC) obligeSpecError(kind, key string, c spec.Clause, err error) {
	f.E.specError(c, err)
	base := kind
	if key != "" {
		base = kind + "@" + key
	}
	f.ord[base]++
	name := fmt.Sprintf("%s/%s#%d", f.Short, base, f.ord[base])
	f.Obls = append(f.Obls, &Obligation{Name: name, Kind: kind, Func: f.Short, Structural: true, StructOK: false, SC: f.SC,
		Pos:  fmt.Sprintf("%s:%d", c.File, c.Line),
		Desc: "contract clause cannot be evaluated on this code: " + err.Error() + " [" + c.Text + "]"})
}
