package vc

import "go/types"

// objectRefs: the reference of an object and of all its by-value sub-objects (embedded structs / arrays).
func (f *FnVC) objectRefs(ref Term, t types.Type, depth int) []Term {
	out := []Term{ref}
	if depth > 4 {
		return out
	}
	st, ok := unalias(t).Underlying().(*types.Struct)
	if !ok {
		return out
	}
	si := f.TE.StructInfo(t)
	for i := 0; i < st.NumFields(); i++ {
		ft := st.Field(i).Type()
		if isAggregate(ft) {
			out = append(out, f.objectRefs(f.SC.Define("subref", f.fa(si.Name, i, ref)), ft, depth+1)...)
		}
	}
	return out
}
