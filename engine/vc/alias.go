package vc

import (
	"go/types"
	"strings"

	"golang.org/x/tools/go/ssa"
)

// Closure aliases: a function literal stored into a field of a composite literal that initialises a package-level
// variable (`var X Codec = &Funcs{EncodeFn: func..., DecodeFn: func...}`) is `init$N` in SSA - a name that shifts when
// another literal is added. A contract may name it `X::EncodeFn` instead; the alias is resolved here to the real key.
func (e *Engine) resolveClosureAliases() {
	alias := map[string]string{}
	for path, sp := range e.SSAPkgs {
		if !strings.HasPrefix(path, e.ModulePath) {
			continue
		}
		init := sp.Func("init")
		if init == nil {
			continue
		}
		for _, b := range init.Blocks {
			for _, in := range b.Instrs {
				st, ok := in.(*ssa.Store)
				if !ok {
					continue
				}
				g, ok := st.Addr.(*ssa.Global)
				if !ok {
					continue
				}
				v := st.Val
				for {
					if mi, ok := v.(*ssa.MakeInterface); ok {
						v = mi.X
						continue
					}
					break
				}
				al, ok := v.(*ssa.Alloc)
				if !ok || al.Referrers() == nil {
					continue
				}
				for _, r := range *al.Referrers() {
					fa, ok := r.(*ssa.FieldAddr)
					if !ok || fa.Referrers() == nil {
						continue
					}
					stt := structOf(fa.X.Type())
					if stt == nil || fa.Field >= stt.NumFields() {
						continue
					}
					for _, r2 := range *fa.Referrers() {
						s2, ok := r2.(*ssa.Store)
						if !ok || s2.Addr != fa {
							continue
						}
						var fn *ssa.Function
						switch x := s2.Val.(type) {
						case *ssa.Function:
							fn = x
						case *ssa.MakeClosure:
							fn, _ = x.Fn.(*ssa.Function)
						}
						if fn != nil {
							alias[path+"."+g.Name()+"::"+stt.Field(fa.Field).Name()] = FuncKey(fn)
						}
					}
				}
			}
		}
	}
	for key, ct := range e.Contracts {
		if real, ok := alias[key]; ok {
			delete(e.Contracts, key)
			ct.Key = real
			e.Contracts[real] = ct
		}
	}
}

func structOf(t types.Type) *types.Struct {
	st, _ := unalias(derefType(t)).Underlying().(*types.Struct)
	return st
}
