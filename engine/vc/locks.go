package vc

import (
	"fmt"
	"go/token"
	"go/types"
	"strings"

	"golang.org/x/tools/go/ssa"

	"verif/engine/spec"
)

// guardInfo: for struct S, guarded field index -> lock field index.
type guardInfo struct {
	lockOf map[int]int
	names  map[int]string
}

const heldComp = "held"

func heldSort() string { return arraySort(SRef, SInt) }

func (f *FnVC) held(st *State, lock Term) Term {
	return sel(f.comp(st, heldComp, heldSort()), lock)
}

func (f *FnVC) noLocksHeld(st *State) Term {
	return eq(f.comp(st, heldComp, heldSort()), Term{"((as const (Array Int Int)) 0)", heldSort()})
}

// lockOp models sync.Mutex / sync.RWMutex operations.
func (f *FnVC) lockOp(st *State, key string, c *ssa.CallCommon, args []Val, rt types.Type, pos token.Pos) (Val, bool) {
	var op string
	switch key {
	case "(*sync.Mutex).Lock", "(*sync.RWMutex).Lock":
		op = "Lock"
	case "(*sync.Mutex).Unlock", "(*sync.RWMutex).Unlock":
		op = "Unlock"
	case "(*sync.RWMutex).RLock":
		op = "RLock"
	case "(*sync.RWMutex).RUnlock":
		op = "RUnlock"
	case "(*sync.Mutex).TryLock", "(*sync.RWMutex).TryLock":
		op = "TryLock"
	case "(*sync.RWMutex).TryRLock":
		op = "TryRLock"
	default:
		return Val{}, false
	}
	f.usesLocks = true
	if len(args) == 0 {
		return Val{}, false
	}
	m := args[0].T
	h := f.comp(st, heldComp, heldSort())
	cur := sel(h, m)
	lockName := f.lockName(c)
	zero, one, two := Term{"0", SInt}, Term{"1", SInt}, Term{"2", SInt}
	switch op {
	case "Lock", "RLock":
		f.oblige("lock", lockName, st, eq(cur, zero), pos, op+" of a mutex this goroutine already holds never returns (not re-entrant)")
		ns := two
		if op == "RLock" {
			ns = one
		}
		f.setComp(st, heldComp, store(h, m, ns))
		f.acquire(st, c, m)
		if op == "Lock" {
			if sname, li, base, pt, ok := f.lockOwner(c); ok {
				st.pushHeld(heldRec{lock: m, sname: sname, lockIdx: li, base: base, typ: pt})
			}
		}
		return Val{Typ: rt}, true
	case "Unlock":
		f.oblige("unlock", lockName, st, eq(cur, two), pos, "Unlock of a mutex not write-locked here")
		f.release(st, c, m, pos)
		st.popHeld(m)
		h = f.comp(st, heldComp, heldSort())
		f.setComp(st, heldComp, store(h, m, zero))
		return Val{Typ: rt}, true
	case "RUnlock":
		f.oblige("unlock", lockName, st, eq(cur, one), pos, "RUnlock of a mutex not read-locked here")
		f.release(st, c, m, pos)
		h = f.comp(st, heldComp, heldSort())
		f.setComp(st, heldComp, store(h, m, zero))
		return Val{Typ: rt}, true
	case "TryLock", "TryRLock":
		ok := f.SC.Declare("trylock", SBool)
		// a lock already held by this goroutine cannot be acquired again
		f.assume(st, implies(not(eq(cur, zero)), not(ok)))
		ns := two
		if op == "TryRLock" {
			ns = one
		}
		f.setComp(st, heldComp, ite(ok, store(h, m, ns), h))
		// monitor havoc only matters when acquired; apply it conditionally through a branch state
		br := st.clone()
		br.Reach = f.SC.Define("reach_try", and(st.Reach, ok))
		f.acquire(br, c, m)
		sk := st.clone()
		sk.Reach = f.SC.Define("reach_notry", and(st.Reach, not(ok)))
		merged := f.mergeStates([]edge{{cond: br.Reach, state: br}, {cond: sk.Reach, state: sk}})
		st.Heap = merged.Heap
		return Val{T: ok, Typ: rt}, true
	}
	return Val{}, false
}

// lockName names a lock by the source text of its receiver expression (stable obligation key).
func (f *FnVC) lockName(c *ssa.CallCommon) string {
	if len(c.Args) > 0 {
		if fa, ok := c.Args[0].(*ssa.FieldAddr); ok {
			st := unalias(fa.X.Type()).Underlying().(*types.Pointer).Elem().Underlying().(*types.Struct)
			return st.Field(fa.Field).Name()
		}
	}
	return "mu"
}

// lockOwner recovers (struct name, lock field index, base ref) when the mutex is a field of a struct.
func (f *FnVC) lockOwner(c *ssa.CallCommon) (string, int, Term, types.Type, bool) {
	if len(c.Args) == 0 {
		return "", 0, Term{}, nil, false
	}
	fa, ok := c.Args[0].(*ssa.FieldAddr)
	if !ok {
		return "", 0, Term{}, nil, false
	}
	pt := unalias(fa.X.Type()).Underlying().(*types.Pointer).Elem()
	si := f.TE.StructInfo(pt)
	base := f.get(fa.X)
	if base.Loc != nil {
		return "", 0, Term{}, nil, false
	}
	return si.Name, fa.Field, base.T, pt, true
}

// acquire: guarded fields are havocked (other goroutines may have changed them) and the monitor invariant assumed.
func (f *FnVC) acquire(st *State, c *ssa.CallCommon, m Term) {
	sname, lockIdx, base, pt, ok := f.lockOwner(c)
	if !ok {
		return
	}
	gi := f.E.guards[sname]
	if gi == nil {
		return
	}
	stt := pt.Underlying().(*types.Struct)
	for fi, li := range gi.lockOf {
		if li != lockIdx {
			continue
		}
		ft := stt.Field(fi).Type()
		if isAggregate(ft) {
			fresh := f.freshVal("mon_"+stt.Field(fi).Name(), ft)
			f.storeObj(st, f.fa(sname, fi, base), fresh, ft)
			continue
		}
		name := fieldComp(sname, fi)
		sort := f.TE.Sort(ft)
		h := f.comp(st, name, arraySort(SRef, sort))
		fresh := f.freshVal("mon_"+stt.Field(fi).Name(), ft)
		f.assumeKnown(st, fresh)
		f.setComp(st, name, store(h, base, fresh.T))
		if mt, isMap := unalias(ft).Underlying().(*types.Map); isMap {
			f.havocMapAt(st, fresh.T, mt)
		}
	}
	for _, mon := range f.E.monitors[sname] {
		if f.E.fieldIndex(stt, mon.Lock) != lockIdx {
			continue
		}
		env := f.bodyEnv(st)
		env.names[mon.Recv] = Val{T: base, Typ: types.NewPointer(pt)}
		v, err := f.evalSpec(env, mon.Clause.Expr, types.Typ[types.Bool])
		if err != nil {
			f.E.specError(mon.Clause, err)
			continue
		}
		f.assume(st, v.T)
	}
}

func (f *FnVC) havocMapAt(st *State, m Term, mt *types.Map) {
	has, val, ln, ks, vs := f.mapComps(mt)
	h := f.comp(st, has, arraySort(SRef, arraySort(ks, SBool)))
	f.setComp(st, has, store(h, m, f.SC.Declare("mon_has", arraySort(ks, SBool))))
	v := f.comp(st, val, arraySort(SRef, arraySort(ks, vs)))
	f.setComp(st, val, store(v, m, f.SC.Declare("mon_val", arraySort(ks, vs))))
	l := f.comp(st, ln, arraySort(SRef, BV(64)))
	nl := f.SC.Declare("mon_len", BV(64))
	f.assume(st, app("bvule", SBool, nl, u64(1<<56)))
	f.setComp(st, ln, store(l, m, nl))
}

// release: the monitor invariant must hold again.
func (f *FnVC) release(st *State, c *ssa.CallCommon, m Term, pos token.Pos) {
	sname, lockIdx, base, pt, ok := f.lockOwner(c)
	if !ok {
		return
	}
	stt := pt.Underlying().(*types.Struct)
	for _, mon := range f.E.monitors[sname] {
		if f.E.fieldIndex(stt, mon.Lock) != lockIdx {
			continue
		}
		env := f.bodyEnv(st)
		env.names[mon.Recv] = Val{T: base, Typ: types.NewPointer(pt)}
		v, err := f.evalSpec(env, mon.Clause.Expr, types.Typ[types.Bool])
		if err != nil {
			f.E.specError(mon.Clause, err)
			continue
		}
		lbl := mon.Clause.Label
		if lbl == "" {
			lbl = mon.Lock
		}
		f.oblige("monitor", lbl, st, v.T, pos, "monitor invariant at release of "+mon.Struct+"."+mon.Lock+": "+mon.Clause.Text)
	}
}

// guardCheck: access to a guarded field through FieldAddr needs the lock.
func (f *FnVC) guardCheck(st *State, addr ssa.Value, write bool, pos token.Pos) {
	fa, ok := addr.(*ssa.FieldAddr)
	if !ok {
		return
	}
	pt := unalias(fa.X.Type()).Underlying().(*types.Pointer).Elem()
	if !isStruct(pt) {
		return
	}
	si := f.TE.StructInfo(pt)
	gi := f.E.guards[si.Name]
	if gi == nil {
		return
	}
	li, guarded := gi.lockOf[fa.Field]
	if !guarded {
		return
	}
	base := f.get(fa.X)
	if base.Loc != nil {
		return
	}
	// a freshly allocated object is not shared yet
	if _, isAlloc := fa.X.(*ssa.Alloc); isAlloc {
		return
	}
	f.usesLocks = true
	lock := f.fa(si.Name, li, base.T)
	cur := f.held(st, lock)
	fname := gi.names[fa.Field]
	if write {
		f.oblige("guard", "w:"+fname, st, eq(cur, Term{"2", SInt}), pos, "write of guarded field "+si.Name+"."+fname+" without holding its lock exclusively")
	} else {
		f.oblige("guard", "r:"+fname, st, not(eq(cur, Term{"0", SInt})), pos, "read of guarded field "+si.Name+"."+fname+" without holding its lock")
	}
}

// guardOfField: a reference-typed guarded field's value stays guarded (its object is shared state).
func (f *FnVC) guardOfField(addr ssa.Value) *Term {
	fa, ok := addr.(*ssa.FieldAddr)
	if !ok {
		return nil
	}
	pt := unalias(fa.X.Type()).Underlying().(*types.Pointer).Elem()
	if !isStruct(pt) {
		return nil
	}
	si := f.TE.StructInfo(pt)
	gi := f.E.guards[si.Name]
	if gi == nil {
		return nil
	}
	li, guarded := gi.lockOf[fa.Field]
	if !guarded {
		return nil
	}
	ft := pt.Underlying().(*types.Struct).Field(fa.Field).Type()
	switch unalias(ft).Underlying().(type) {
	case *types.Map, *types.Slice:
	default:
		return nil
	}
	base := f.get(fa.X)
	if base.Loc != nil {
		return nil
	}
	lock := f.fa(si.Name, li, base.T)
	return &lock
}

func (f *FnVC) guardedObjCheck(st *State, v Val, write bool, pos token.Pos) {
	if v.GuardLock == nil {
		return
	}
	f.usesLocks = true
	cur := f.held(st, *v.GuardLock)
	if write {
		f.oblige("guard", "w:obj", st, eq(cur, Term{"2", SInt}), pos, "write to a map/slice object that belongs to a guarded field without holding its lock exclusively")
	} else {
		f.oblige("guard", "r:obj", st, not(eq(cur, Term{"0", SInt})), pos, "read/iteration of a map/slice object that belongs to a guarded field without holding its lock")
	}
}

// atStore: contract obligations attached to stores of a named field.
func (f *FnVC) atStore(st *State, x *ssa.Store, p Val, v Val) {
	if f.Ct == nil || len(f.Ct.AtStores) == 0 {
		return
	}
	var fname string
	var base *Val
	switch a := x.Addr.(type) {
	case *ssa.FieldAddr:
		stt := unalias(a.X.Type()).Underlying().(*types.Pointer).Elem().Underlying().(*types.Struct)
		fname = stt.Field(a.Field).Name()
		b := f.get(a.X)
		base = &b
	case *ssa.FreeVar: // captured variable (e.g. a named result of the enclosing function)
		fname = a.Name()
	case *ssa.Alloc:
		fname = a.Comment
	default:
		return
	}
	for _, as := range f.Ct.AtStores {
		if as.Pattern != fname || as.Action != "assert" {
			continue
		}
		f.acMatched[as]++
		env := f.bodyEnv(st)
		env.names["value"] = v
		if base != nil {
			env.names["base"] = *base
		}
		lbl := as.Clause.Label
		if lbl == "" {
			lbl = fname
		}
		val, err := f.evalSpec(env, as.Clause.Expr, types.Typ[types.Bool])
		if err != nil {
			f.obligeSpecError("at-store", lbl, as.Clause, err)
			continue
		}
		f.oblige("at-store", lbl, st, val.T, x.Pos(), "at-store "+fname+": "+as.Clause.Text)
	}
}

func (e *Engine) fieldIndex(st *types.Struct, name string) int {
	for i := 0; i < st.NumFields(); i++ {
		if st.Field(i).Name() == name {
			return i
		}
	}
	return -1
}

// resolveGuards turns parsed guarded_by declarations into index tables (struct looked up in pkg scope).
func (e *Engine) resolveGuard(g *spec.Guard, scope *types.Scope, te func(types.Type) string) error {
	obj := scope.Lookup(g.Struct)
	if obj == nil {
		return fmt.Errorf("%s:%d: guarded_by: no type %s", g.File, g.Line, g.Struct)
	}
	st, ok := obj.Type().Underlying().(*types.Struct)
	if !ok {
		return fmt.Errorf("%s:%d: guarded_by: %s is not a struct", g.File, g.Line, g.Struct)
	}
	sname := te(obj.Type())
	li := e.fieldIndex(st, g.Lock)
	if li < 0 {
		return fmt.Errorf("%s:%d: guarded_by: no lock field %s.%s", g.File, g.Line, g.Struct, g.Lock)
	}
	gi := e.guards[sname]
	if gi == nil {
		gi = &guardInfo{lockOf: map[int]int{}, names: map[int]string{}}
		e.guards[sname] = gi
	}
	for _, fn := range g.Fields {
		fi := e.fieldIndex(st, fn)
		if fi < 0 {
			return fmt.Errorf("%s:%d: guarded_by: no field %s.%s", g.File, g.Line, g.Struct, fn)
		}
		gi.lockOf[fi] = li
		gi.names[fi] = fn
	}
	return nil
}

var _ = strings.TrimSpace
