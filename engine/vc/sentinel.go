package vc

import (
	"golang.org/x/tools/go/ssa"
)

// errSentinel: g is a package-level variable of type error that is written exactly once, by its package initialiser,
// with the result of errors.New or fmt.Errorf, and that no other function writes or takes the address of (every other
// use is a plain load). Such a variable is never nil after initialisation. Decided structurally on the SSA.
func (e *Engine) errSentinel(g *ssa.Global) bool {
	if v, ok := e.sentinels[g]; ok {
		return v
	}
	if e.sentinels == nil {
		e.sentinels = map[*ssa.Global]bool{}
	}
	ok := e.checkErrSentinel(g)
	e.sentinels[g] = ok
	return ok
}

func (e *Engine) checkErrSentinel(g *ssa.Global) bool {
	if g.Pkg == nil || !e.inModulePkg(g.Pkg) {
		return false
	}
	init := g.Pkg.Func("init")
	if init == nil {
		return false
	}
	stores := 0
	for fn := range e.allFuncs() {
		if fn.Blocks == nil {
			continue
		}
		for _, b := range fn.Blocks {
			for _, in := range b.Instrs {
				for _, op := range in.Operands(nil) {
					if *op != ssa.Value(g) {
						continue
					}
					switch x := in.(type) {
					case *ssa.UnOp: // load
					case *ssa.DebugRef:
					case *ssa.Store:
						if x.Addr != ssa.Value(g) || fn != init {
							return false
						}
						call, isCall := x.Val.(*ssa.Call)
						if !isCall {
							return false
						}
						cf, isFn := call.Call.Value.(*ssa.Function)
						if !isFn || (FuncKey(cf) != "errors.New" && FuncKey(cf) != "fmt.Errorf") {
							return false
						}
						stores++
					default:
						return false // address escapes
					}
				}
			}
		}
	}
	return stores == 1
}

func (e *Engine) inModulePkg(p *ssa.Package) bool {
	return p != nil && p.Pkg != nil && len(p.Pkg.Path()) >= len(e.ModulePath) && p.Pkg.Path()[:len(e.ModulePath)] == e.ModulePath
}
