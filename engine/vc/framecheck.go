package vc

import (
	"fmt"
	"sort"
	"strings"

	"golang.org/x/tools/go/ssa"
)

// inferredModset: the heap locations the body of fn may write (its own contract is ignored; callees use theirs).
func (e *Engine) inferredModset(fn *ssa.Function) *modset {
	ms := newModset()
	visiting := map[*ssa.Function]bool{fn: true}
	for _, b := range fn.Blocks {
		for _, in := range b.Instrs {
			e.instrWrites(in, ms)
			switch x := in.(type) {
			case *ssa.Call:
				e.callWrites(&x.Call, ms, visiting)
			case *ssa.Defer:
				e.callWrites(&x.Call, ms, visiting)
			case *ssa.Go:
				e.callWrites(&x.Call, ms, visiting)
			case *ssa.MakeClosure:
				ms.union(e.modsetOfFunc(x.Fn.(*ssa.Function), visiting))
			}
		}
	}
	return ms
}

// frameObligation: the declared `modifies` clause covers everything the body may write (structural, by mod-set
// inference over the body and the frames of its callees). Only generated for contracts that declare a frame.
func (f *FnVC) frameObligation() {
	if f.Ct == nil || !f.Ct.HasMod || f.Ct.NoBody {
		return
	}
	declared := newModset()
	f.E.contractFrame(f.Ct, f.Fn.Signature, f.Fn, declared)
	inferred := f.E.inferredModset(f.Fn)
	var extra []string
	if inferred.all && !declared.all {
		extra = append(extra, "everything (a callee with unknown effects)")
	}
	if !declared.all {
		for k := range inferred.comps {
			if _, ok := declared.comps[k]; !ok {
				extra = append(extra, k)
			}
		}
	}
	sort.Strings(extra)
	o := &Obligation{Name: f.Short + "/frame#1", Kind: "frame", Func: f.Short, Structural: true, StructOK: len(extra) == 0, SC: f.SC,
		Desc: fmt.Sprintf("declared modifies clause covers the inferred writes of the body; not covered: [%s]", strings.Join(extra, ", "))}
	f.Obls = append(f.Obls, o)
}
