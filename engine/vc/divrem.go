package vc

import (
	"fmt"
	"go/token"
)

// symbolicDivRem models x / n and x % n for a symbolic 64-bit divisor with uninterpreted functions plus the facts
//
//	n > 0 && x >= 0  ==>  0 <= x%n < n,  x < n ==> x%n == x,  n <= x < 2n ==> x%n == x-n,
//	                      0 <= x/n <= x,  x < n ==> x/n == 0
//
// (signed case; the unsigned case is analogous). These are theorems of Go's integer division, so assuming them is sound;
// anything not implied by them is simply not provable.
func (f *FnVC) symbolicDivRem(op token.Token, signed bool, x, n Term) Term {
	kind := "rem"
	if op == token.QUO {
		kind = "div"
	}
	sg := "u"
	if signed {
		sg = "s"
	}
	fn := fmt.Sprintf("%s%s64", sg, kind)
	bv := BV(64)
	if !f.SC.HasFun(fn) {
		f.SC.DeclareFun(fn, []string{bv, bv}, bv)
		lt, le := "bvult", "bvule"
		pos := "(not (= n #x0000000000000000))"
		nonneg := "true"
		if signed {
			lt, le = "bvslt", "bvsle"
			pos = "(bvsgt n #x0000000000000000)"
			nonneg = "(bvsge x #x0000000000000000)"
		}
		var body string
		if kind == "rem" {
			body = fmt.Sprintf("(=> (and %s %s) (and (%s #x0000000000000000 (%s x n)) (%s (%s x n) n) (=> (%s x n) (= (%s x n) x)) (=> (and (%s n x) (%s (bvsub x n) n)) (= (%s x n) (bvsub x n)))))",
				pos, nonneg, le, fn, lt, fn, lt, fn, le, lt, fn)
		} else {
			body = fmt.Sprintf("(=> (and %s %s) (and (%s #x0000000000000000 (%s x n)) (%s (%s x n) x) (=> (%s x n) (= (%s x n) #x0000000000000000))))",
				pos, nonneg, le, fn, le, fn, lt, fn)
		}
		f.SC.Assert(fmt.Sprintf("(forall ((x %s) (n %s)) (! %s :pattern ((%s x n))))", bv, bv, body, fn))
		f.abstracted("integer division/remainder by a symbolic divisor (uninterpreted + arithmetic lemmas)")
	}
	return app(fn, bv, x, n)
}
