package vc

import (
	"golang.org/x/tools/go/ssa"

	"verif/engine/spec"
)

// allocRoot: v addresses (part of) an object allocated by the current function invocation.
func allocRoot(v ssa.Value, depth int) bool {
	if depth > 8 {
		return false
	}
	switch x := v.(type) {
	case *ssa.Alloc:
		return true
	case *ssa.FieldAddr:
		return allocRoot(x.X, depth+1)
	case *ssa.IndexAddr:
		return allocRoot(x.X, depth+1)
	case *ssa.Slice:
		return allocRoot(x.X, depth+1)
	}
	return false
}

// frameAtCall is the frame a contracted callee contributes to the *caller's* inferred frame: `x[*]` / `*x` entries whose
// actual argument is an object the caller allocated itself are dropped (writes to objects that did not exist when the
// caller was entered are invisible in the caller's frame). Not used for loop-head havoc.
func (e *Engine) frameAtCall(ct *spec.FuncContract, c *ssa.CallCommon, fn *ssa.Function, ms *modset) {
	sig := c.Signature()
	invoke := c.IsInvoke()
	names := formalNames(ct, fn, sig, sig.Recv() != nil && fn == nil)
	actual := func(name string) ssa.Value {
		for i, n := range names {
			if n != name {
				continue
			}
			j := i
			if invoke {
				if i == 0 {
					return c.Value
				}
				j = i - 1
			}
			if j < len(c.Args) {
				return c.Args[j]
			}
		}
		return nil
	}
	var kept []*spec.Expr
	for _, m := range ct.Modifies {
		var id string
		if m.Op == "idx" && m.Args[0].Op == "id" {
			id = m.Args[0].Tok
		} else if m.Op == "un" && m.Tok == "*" && m.Args[0].Op == "id" {
			id = m.Args[0].Tok
		}
		if id != "" {
			if a := actual(id); a != nil && allocRoot(a, 0) {
				continue
			}
		}
		kept = append(kept, m)
	}
	if len(kept) == len(ct.Modifies) {
		e.contractFrame(ct, sig, fn, ms)
		return
	}
	cp := *ct
	cp.Modifies = kept
	e.contractFrameFor(&cp, ct, sig, fn, ms)
}
