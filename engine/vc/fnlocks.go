package vc

import (
	"strings"

	"golang.org/x/tools/go/ssa"
)

// fnLocks reports whether the function body itself performs mutex operations (its verification then relies on the
// "no lock held at entry" assumption, which callers must establish).
func fnLocks(fn *ssa.Function) bool {
	if fn == nil || fn.Blocks == nil {
		return false
	}
	for _, b := range fn.Blocks {
		for _, in := range b.Instrs {
			var c *ssa.CallCommon
			switch x := in.(type) {
			case *ssa.Call:
				c = &x.Call
			case *ssa.Defer:
				c = &x.Call
			}
			if c == nil || c.IsInvoke() {
				continue
			}
			if sf, ok := c.Value.(*ssa.Function); ok {
				k := FuncKey(sf)
				if strings.HasPrefix(k, "(*sync.Mutex).") || strings.HasPrefix(k, "(*sync.RWMutex).") {
					return true
				}
			}
		}
	}
	return false
}
