package vc

import (
	"go/types"

	"verif/engine/spec"
)

// noteHeldAtEntry: a precondition conjunct `held(x.lockField) == wlocked` means the function runs with that lock held
// exclusively from its first instruction on (the "...Locked" helper convention).
func (f *FnVC) noteHeldAtEntry(env *SEnv, entry *State, e *spec.Expr) {
	if e == nil {
		return
	}
	if e.Op == "bin" && e.Tok == "&&" {
		f.noteHeldAtEntry(env, entry, e.Args[0])
		f.noteHeldAtEntry(env, entry, e.Args[1])
		return
	}
	if e.Op != "bin" || e.Tok != "==" {
		return
	}
	call, rhs := e.Args[0], e.Args[1]
	if !(rhs.Op == "id" && rhs.Tok == "wlocked") {
		call, rhs = e.Args[1], e.Args[0]
	}
	if !(rhs.Op == "id" && rhs.Tok == "wlocked") || call.Op != "call" || call.Args[0].Op != "id" || call.Args[0].Tok != "held" || len(call.Args) != 2 {
		return
	}
	lockExpr := call.Args[1]
	if lockExpr.Op != "sel" {
		return
	}
	base, err := f.evalSpec(env, lockExpr.Args[0], nil)
	if err != nil {
		return
	}
	p, ok := unalias(base.Typ).Underlying().(*types.Pointer)
	if !ok {
		return
	}
	stt, ok := unalias(p.Elem()).Underlying().(*types.Struct)
	if !ok {
		return
	}
	idx, path := findField(stt, lockExpr.Tok)
	if idx < 0 || len(path) != 1 {
		return
	}
	si := f.TE.StructInfo(p.Elem())
	lock := f.fa(si.Name, idx, base.T)
	entry.pushHeld(heldRec{lock: lock, sname: si.Name, lockIdx: idx, base: base.T, typ: p.Elem()})
	f.usesLocks = true
}
