package vc

import (
	"fmt"
	"go/token"
	"go/types"
	"strings"

	"golang.org/x/tools/go/ssa"

	"verif/engine/spec"
)

type closureKey struct {
	f   *FnVC
	ref string
}

type closureInfo struct {
	fn       *ssa.Function
	bindings []ssa.Value
	maker    *ssa.MakeClosure
}

// calleeKeys returns the contract keys to try for a call, most specific first, and a display name.
func (f *FnVC) calleeKeys(c *ssa.CallCommon) (keys []string, fn *ssa.Function, display string) {
	if c.IsInvoke() {
		it := c.Value.Type()
		k := "(" + types.TypeString(unalias(it), nil) + ")." + c.Method.Name()
		keys = append(keys, k)
		// also the interface that declares the method (embedded interfaces), e.g. io.Reader inside io.ReadWriter
		if recv := c.Method.Type().(*types.Signature).Recv(); recv != nil {
			k2 := "(" + types.TypeString(unalias(recv.Type()), nil) + ")." + c.Method.Name()
			if k2 != k {
				keys = append(keys, k2)
			}
		}
		return keys, nil, k
	}
	switch v := c.Value.(type) {
	case *ssa.Function:
		k := FuncKey(v)
		return []string{k}, v, k
	case *ssa.MakeClosure:
		fn := v.Fn.(*ssa.Function)
		k := FuncKey(fn)
		return []string{k}, fn, k
	case *ssa.Builtin:
		return nil, nil, "builtin " + v.Name()
	}
	return nil, nil, dynCallName(c.Value)
}

func (f *FnVC) call(st *State, instr ssa.Instruction, c *ssa.CallCommon, pos token.Pos) Val {
	var rt types.Type = c.Signature().Results()
	if c.Signature().Results().Len() == 1 {
		rt = c.Signature().Results().At(0).Type()
	}
	if b, ok := c.Value.(*ssa.Builtin); ok {
		if v, ok2 := instr.(ssa.Value); ok2 {
			rt = v.Type()
		}
		if f.Ct != nil && len(f.Ct.AtCalls) > 0 {
			var bargs []Val
			for _, a := range c.Args {
				bargs = append(bargs, f.get(a))
			}
			site := f.noteSite(st, c, b.Name(), bargs, Val{}, pos)
			if len(c.Args) > 0 {
				// builtins applied to a struct field (delete(p.m, k), len(p.m), append(p.s, ...)) can be selected by field
				if fnm := sourceFieldName(c.Args[0]); fnm != "" {
					f.noteSiteRaw(st, b.Name()+":"+fnm, bargs, pos)
				}
			}
			res := f.builtin(st, b, c, rt, pos)
			if site != nil {
				site.res = res
				site.postSt = st.clone()
			}
			return res
		}
		return f.builtin(st, b, c, rt, pos)
	}
	var args []Val
	if c.IsInvoke() {
		args = append(args, f.get(c.Value))
	}
	for _, a := range c.Args {
		args = append(args, f.get(a))
	}
	keys, fn, display := f.calleeKeys(c)
	return f.doCall(st, instr, c, keys, fn, display, args, rt, pos)
}

func (f *FnVC) doCall(st *State, instr ssa.Instruction, c *ssa.CallCommon, keys []string, fn *ssa.Function, display string, args []Val, rt types.Type, pos token.Pos) Val {
	// promoted methods: use the declared method (and its contract) on the embedded receiver
	if real, na, ok := f.unwrapPromoted(st, fn, args); ok {
		fn, args = real, na
		keys = []string{FuncKey(real)}
		display = FuncKey(real)
	}
	// lock operations are built in
	if len(keys) > 0 {
		if res, ok := f.lockOp(st, keys[0], c, args, rt, pos); ok {
			f.noteSite(st, c, display, args, res, pos)
			return res
		}
	}
	// at-call obligations are evaluated in the pre-state of the call
	site := f.noteSite(st, c, display, args, Val{}, pos)
	var ct *spec.FuncContract
	for _, k := range keys {
		if x := f.E.Contracts[k]; x != nil {
			ct = x
			break
		}
	}
	var res Val
	if ct != nil {
		res = f.applyContract(st, ct, fn, c, args, rt, pos, display)
	} else {
		res = f.havocCall(st, fn, c, args, rt, display)
	}
	if site != nil {
		site.res = res
		site.postSt = st.clone()
		if site.mergedInto != nil {
			prev := site.mergedWith.res
			if prev.Tuple == nil && res.Tuple == nil && prev.T.Sort == res.T.Sort && res.T.S != "" {
				site.mergedInto.res = f.mergeVal(st.Reach, res, prev)
			} else {
				site.mergedInto.res = res
			}
		}
		for _, ac := range site.post {
			f.atCallAssume(st, ac, site)
		}
	}
	return res
}

// ---- call sites: labels, at-call asserts ----------------------------------------------------

func matchCallee(pattern, display string) bool {
	if pattern == display {
		return true
	}
	if strings.HasSuffix(pattern, "*") && strings.HasPrefix(display, strings.TrimSuffix(pattern, "*")) {
		return true
	}
	sk := shortKey(display)
	if pattern == sk {
		return true
	}
	// bare method / function name
	if i := strings.LastIndex(sk, "."); i >= 0 && sk[i+1:] == pattern {
		return true
	}
	if strings.HasSuffix(display, "."+pattern) || strings.HasSuffix(display, "/"+pattern) {
		return true
	}
	return false
}

type siteRec struct {
	callSite
	post       []*spec.AtCall
	mergedWith *callSite
	mergedInto *callSite
}

func (f *FnVC) noteSite(st *State, c *ssa.CallCommon, display string, args []Val, res Val, pos token.Pos) *siteRec {
	if f.Ct == nil {
		return nil
	}
	var rec *siteRec
	for _, ac := range f.Ct.AtCalls {
		if !matchCallee(ac.Pattern, display) {
			continue
		}
		if ac.ArgType != "" && !f.argTypeMatches(c, ac.ArgType) {
			continue
		}
		if ac.Ordinal != 0 && ac.Ordinal != f.sourceOrdinal(ac, pos) {
			continue
		}
		f.acMatched[ac]++
		if rec == nil {
			rec = &siteRec{callSite: callSite{reach: st.Reach, args: args, res: res}}
		}
		if ac.Label != "" {
			// several matches of one label merge: called = OR, values = ite
			if prev, ok := f.sites[ac.Label]; ok {
				merged := &callSite{label: ac.Label, reach: or(prev.reach, st.Reach), res: res}
				for i, a := range args {
					if i < len(prev.args) && prev.args[i].Tuple == nil && a.Tuple == nil && prev.args[i].T.Sort == a.T.Sort {
						merged.args = append(merged.args, f.mergeVal(st.Reach, a, prev.args[i]))
					} else {
						merged.args = append(merged.args, a)
					}
				}
				rec.mergedWith = prev
				rec.mergedInto = merged
				f.sites[ac.Label] = merged
			} else {
				f.sites[ac.Label] = &rec.callSite
			}
			rec.label = ac.Label
		}
		switch ac.Action {
		case "assert":
			env := f.siteEnv(st, args, c)
			lbl := ac.Clause.Label
			if lbl == "" {
				lbl = ac.Pattern
			}
			v, err := f.evalSpec(env, ac.Clause.Expr, types.Typ[types.Bool])
			if err != nil {
				f.obligeSpecError("at-call", lbl, ac.Clause, err)
				continue
			}
			o := f.oblige("at-call", lbl, st, v.T, pos, "at-call "+ac.Pattern+": "+ac.Clause.Text)
			_ = o
		case "assume":
			rec.post = append(rec.post, ac)
		}
	}
	return rec
}

func (f *FnVC) atCallAssume(st *State, ac *spec.AtCall, site *siteRec) {
	env := f.siteEnv(st, site.args, nil)
	env.names["result"] = site.res
	v, err := f.evalSpec(env, ac.Clause.Expr, types.Typ[types.Bool])
	if err != nil {
		f.E.specError(ac.Clause, err)
		return
	}
	f.assume(st, v.T)
	f.assumed = append(f.assumed, "at-call assume in "+f.Short+": "+ac.Clause.Text)
}

func (f *FnVC) argTypeMatches(c *ssa.CallCommon, want string) bool {
	for _, a := range c.Args {
		t := a.Type()
		if mi, ok := a.(*ssa.MakeInterface); ok {
			t = mi.X.Type()
		}
		s := shortType(t)
		if s == want || strings.HasSuffix(s, want) {
			return true
		}
	}
	return false
}

// siteEnv is the environment for at-call expressions: function names + arg0..argN.
func (f *FnVC) siteEnv(st *State, args []Val, c *ssa.CallCommon) *SEnv {
	env := f.bodyEnv(st)
	for i, a := range args {
		env.names[fmt.Sprintf("arg%d", i)] = a
	}
	if c != nil {
		// dynamic types of interface-typed arguments, for dyntype(argK)
		for i, a := range c.Args {
			j := i
			if c.IsInvoke() {
				j = i + 1
			}
			if mi, ok := a.(*ssa.MakeInterface); ok {
				env.dyn[fmt.Sprintf("arg%d", j)] = shortType(mi.X.Type())
			}
		}
	}
	return env
}

// ---- contracts at call sites ---------------------------------------------------------------

// formalNames gives the parameter names a contract uses (receiver first).
func formalNames(ct *spec.FuncContract, fn *ssa.Function, sig *types.Signature, invoke bool) []string {
	if len(ct.Params) > 0 {
		return ct.Params
	}
	var names []string
	if fn != nil && len(fn.Params) > 0 {
		for _, p := range fn.Params {
			names = append(names, p.Name())
		}
		return names
	}
	if invoke || sig.Recv() != nil {
		n := "recv"
		if sig.Recv() != nil && sig.Recv().Name() != "" && sig.Recv().Name() != "_" {
			n = sig.Recv().Name()
		}
		names = append(names, n)
	}
	for i := 0; i < sig.Params().Len(); i++ {
		n := sig.Params().At(i).Name()
		if n == "" || n == "_" {
			n = fmt.Sprintf("p%d", i)
		}
		names = append(names, n)
	}
	return names
}

func resultNames(sig *types.Signature) []string {
	var names []string
	for i := 0; i < sig.Results().Len(); i++ {
		names = append(names, sig.Results().At(i).Name())
	}
	return names
}

func (f *FnVC) applyContract(st *State, ct *spec.FuncContract, fn *ssa.Function, c *ssa.CallCommon, args []Val, rt types.Type, pos token.Pos, display string) Val {
	sig := c.Signature()
	names := formalNames(ct, fn, sig, c.IsInvoke())
	if ct.Trusted {
		f.usedTrusted[ct.Target] = true
	} else if ct.NoBody {
		f.assumed = append(f.assumed, "contract of "+ct.Target+" assumed (nobody)")
	}
	f.calledContracts[ct.Target] = true
	pre := st.clone()
	env := &SEnv{f: f, names: map[string]Val{}, cur: st, old: pre, pkg: f.E.pkgOfContract(ct, fn), dyn: map[string]string{}, cells: map[string]Val{}}
	for i, n := range names {
		if i < len(args) {
			env.names[n] = args[i]
		}
	}
	// closures: the callee's captured variables are the cells bound at MakeClosure
	if mc, ok := c.Value.(*ssa.MakeClosure); ok && fn != nil {
		for i, fv := range fn.FreeVars {
			if i < len(mc.Bindings) {
				saved := f.curNode
				cell := f.get(mc.Bindings[i])
				f.curNode = saved
				env.cells[fv.Name()] = cell
			}
		}
	}
	// preconditions
	for i, r := range ct.Requires {
		if f.Ct != nil && (f.Ct.Swept || f.Ct.GhostPre) && (strings.Contains(r.Text, "rwf(") || strings.Contains(r.Text, ".@")) {
			// swept functions carry only the panic-value and allocation obligations: callee preconditions about the ghost
			// stream model (reader well-formedness) are assumed there; preconditions over real values are still checked
			continue
		}
		v, err := f.evalSpec(env, r.Expr, types.Typ[types.Bool])
		if err != nil {
			f.E.specError(r, err)
			continue
		}
		lbl := r.Label
		if lbl == "" {
			lbl = fmt.Sprintf("r%d", i+1)
		}
		f.oblige("pre", shortKey(ct.Target)+":"+lbl, st, v.T, pos, "precondition of "+ct.Target+": "+r.Text)
	}
	// implicit precondition of verified module functions: called without locks held (unless the contract talks about held)
	if !ct.Trusted && !ct.Pure && !ct.NoBody && !contractMentionsHeld(ct) && f.usesLocks && fnLocks(fn) {
		f.oblige("pre", shortKey(ct.Target)+":lockfree", st, f.noLocksHeld(st), pos, "callee "+ct.Target+" is verified assuming no locks are held at entry")
	}
	// frame: havoc what the contract may modify
	if ct.HasMod || ct.Trusted || ct.Pure {
		for _, m := range ct.Modifies {
			if err := f.havocLoc(env, st, m); err != nil {
				f.E.specError(spec.Clause{Text: m.String(), File: ct.File, Line: ct.Line}, err)
			}
		}
	} else {
		f.havocByModset(st, fn, c, args)
	}
	f.bumpAlloc(st)
	var res Val
	if ct.Pure && fn != nil && fn.Object() != nil {
		// pure function: the same uninterpreted symbol the specifications use
		if tf, ok := fn.Object().(*types.Func); ok {
			res = f.pureApp(tf.FullName(), args, sig)
		}
	}
	if res.T.S == "" && res.Tuple == nil {
		res = f.freshVal("ret_"+shortKey(ct.Target), rt)
	}
	f.bindResults(env, sig, res)
	f.assumeKnownDeep(st, res)
	for _, e := range ct.Ensures {
		if internalClause(e.Text) {
			continue // talks about the callee's own call sites: meaningless to callers
		}
		v, err := f.evalSpec(env, e.Expr, types.Typ[types.Bool])
		if err != nil {
			f.E.specError(e, err)
			continue
		}
		f.assume(st, v.T)
	}
	return res
}

func internalClause(text string) bool {
	return strings.Contains(text, "called(") || strings.Contains(text, "res(") || strings.Contains(text, "arg(")
}

func contractMentionsHeld(ct *spec.FuncContract) bool {
	for _, r := range ct.Requires {
		if strings.Contains(r.Text, "held(") {
			return true
		}
	}
	return false
}

func (f *FnVC) bindResults(env *SEnv, sig *types.Signature, res Val) {
	rn := resultNames(sig)
	if res.Tuple != nil {
		env.names["result"] = res
		for i, v := range res.Tuple {
			if i < len(rn) && rn[i] != "" && rn[i] != "_" {
				env.names[rn[i]] = v
			}
		}
		// convention: last result of type error is "err"
		if n := len(res.Tuple); n > 0 {
			if _, ok := env.names["err"]; !ok && isErrorType(res.Tuple[n-1].Typ) {
				env.names["err"] = res.Tuple[n-1]
			}
		}
		return
	}
	if sig.Results().Len() == 1 {
		env.names["result"] = res
		if rn[0] != "" && rn[0] != "_" {
			env.names[rn[0]] = res
		}
		if _, ok := env.names["err"]; !ok && isErrorType(res.Typ) {
			env.names["err"] = res
		}
	}
}

func isErrorType(t types.Type) bool {
	if t == nil {
		return false
	}
	n, ok := unalias(t).(*types.Named)
	return ok && n.Obj().Pkg() == nil && n.Obj().Name() == "error"
}

func (f *FnVC) bumpAlloc(st *State) {
	a := f.comp(st, "alloc", SInt)
	n := f.SC.Declare("alloc", SInt)
	f.SC.Assert(fmt.Sprintf("(>= %s %s)", n.S, a.S))
	st.Heap["alloc"] = n
}

func (f *FnVC) assumeKnownDeep(st *State, v Val) {
	if v.Tuple != nil {
		for _, x := range v.Tuple {
			f.assumeKnownDeep(st, x)
		}
		return
	}
	f.assumeKnown(st, v)
}

// ---- calls without contract: havoc ------------------------------------------------------------

func (f *FnVC) havocCall(st *State, fn *ssa.Function, c *ssa.CallCommon, args []Val, rt types.Type, display string) Val {
	f.uncontracted[display]++
	f.havocByModset(st, fn, c, args)
	f.bumpAlloc(st)
	res := f.freshVal("ret", rt)
	f.assumeKnownDeep(st, res)
	return res
}

// havocByModset forgets every heap component the callee may write.
func (f *FnVC) havocByModset(st *State, fn *ssa.Function, c *ssa.CallCommon, args []Val) {
	ms := f.E.modsetOfCall(f, fn, c)
	// a closure handed to the callee may be run by it: its effects belong to the call
	for _, a := range c.Args {
		if mc, ok := a.(*ssa.MakeClosure); ok {
			cp := newModset()
			cp.union(ms)
			cp.union(f.E.modsetOfFunc(mc.Fn.(*ssa.Function), map[*ssa.Function]bool{}))
			ms = cp
		}
	}
	before := st.clone()
	// State guarded by a lock we hold exclusively cannot be written by other goroutines, and code we reach only through
	// function values (unknown effects) is assumed to respect the lock discipline, i.e. not to write it either (it could
	// not acquire the lock). Components the callee is *known* to write are never kept.
	var keeps []keepRec
	if ms.all {
		keeps = f.guardedKeeps(st, f.modsetCompNames(ms))
	}
	// captured variables that only this function's own closures can reach are as good as locals for any other callee
	savedLocals := st.Locals
	if pk := f.privateKeeps(fn); len(pk) > 0 {
		st.Locals = append(append([]Term{}, st.Locals...), pk...)
	}
	f.preserveLocalsOnHavoc = true
	f.havocKeeps = keeps
	f.havocModset(st, ms)
	f.preserveLocalsOnHavoc = false
	f.havocKeeps = nil
	// memory of non-escaping locals cannot be touched by a callee
	f.applyKeeps(st, before, st.Locals, nil)
	st.Locals = savedLocals
	// memory reachable from the arguments (one level) for callees outside the analysed module
	if ms.argReach && !ms.all {
		for _, a := range args {
			f.havocArgReach(st, a)
		}
	}
}

func (f *FnVC) havocArgReach(st *State, a Val) {
	switch a.T.Sort {
	case SSlice:
		if s, ok := unalias(a.Typ).Underlying().(*types.Slice); ok {
			sort := f.TE.Sort(s.Elem())
			name := elemComp(sort)
			{
				h := f.comp(st, name, arraySort(SRef, arraySort(BV(64), sort)))
				fresh := f.SC.Declare("hv_elems", arraySort(BV(64), sort))
				f.setComp(st, name, store(h, app("lref", SRef, a.T), fresh))
			}
		}
	case SRef:
		p, ok := unalias(a.Typ).Underlying().(*types.Pointer)
		if !ok {
			return
		}
		if a.Loc != nil {
			fresh := f.SC.Declare("hv_loc", f.TE.Sort(p.Elem()))
			f.storeAt(st, a, Val{T: fresh, Typ: p.Elem()}, p.Elem())
			return
		}
		fresh := f.freshVal("hv_obj", p.Elem())
		f.storeObj(st, a.T, fresh, p.Elem())
	}
}

// ---- builtins ----------------------------------------------------------------------------------

func (f *FnVC) builtin(st *State, b *ssa.Builtin, c *ssa.CallCommon, rt types.Type, pos token.Pos) Val {
	var args []Val
	for _, a := range c.Args {
		args = append(args, f.get(a))
	}
	switch b.Name() {
	case "len":
		a := args[0]
		switch a.T.Sort {
		case SSlice:
			return Val{T: app("llen", BV(64), a.T), Typ: rt}
		case SStr:
			return Val{T: app("slen", BV(64), a.T), Typ: rt}
		case SRef:
			if mt, ok := unalias(a.Typ).Underlying().(*types.Map); ok {
				f.guardedObjCheck(st, a, false, pos)
				ml := f.SC.Define("maplen", ite(eq(a.T, Term{"0", SRef}), u64(0), f.mapLen(st, a.T, mt)))
				f.assume(st, app("bvule", SBool, ml, u64(1<<56))) // sizes are bounded by memory
				return Val{T: ml, Typ: rt}
			}
		}
		if at, ok := unalias(a.Typ).Underlying().(*types.Array); ok {
			return Val{T: u64(uint64(at.Len())), Typ: rt}
		}
		v := f.freshVal("len", rt)
		f.assume(st, app("bvsge", SBool, v.T, u64(0)))
		return v
	case "cap":
		if args[0].T.Sort == SSlice {
			return Val{T: app("lcap", BV(64), args[0].T), Typ: rt}
		}
		return f.freshVal("cap", rt)
	case "append":
		return f.appendOp(st, args, rt)
	case "copy":
		return f.copyOp(st, args, rt)
	case "delete":
		m := args[0]
		mt := unalias(m.Typ).Underlying().(*types.Map)
		f.guardedObjCheck(st, m, true, pos)
		// delete on a nil map is a no-op
		f.mapStore(st, m.T, mt, f.mapKey(args[1]), nil)
		return Val{Typ: rt}
	case "min", "max":
		a, bb := args[0], args[1]
		w := bvWidth(a.T.Sort)
		if w == 0 || isFloat(a.Typ) {
			return f.freshVal("minmax", rt)
		}
		lt := "bvult"
		if isSigned(a.Typ) {
			lt = "bvslt"
		}
		cur := a.T
		for _, x := range args[1:] {
			if b.Name() == "min" {
				cur = ite(app(lt, SBool, x.T, cur), x.T, cur)
			} else {
				cur = ite(app(lt, SBool, cur, x.T), x.T, cur)
			}
		}
		_ = bb
		return Val{T: cur, Typ: rt}
	case "recover":
		return f.freshVal("recovered", rt)
	case "print", "println", "close", "clear":
		f.abstracted("builtin " + b.Name())
		return Val{Typ: rt}
	case "ssa:wrapnilchk":
		return args[0]
	}
	f.abstracted("builtin " + b.Name())
	return f.freshVal("builtin", rt)
}

// appendOp: result is either the same backing array (enough capacity) or a fresh one; both covered.
func (f *FnVC) appendOp(st *State, args []Val, rt types.Type) Val {
	s := args[0]
	var et types.Type
	if sl, ok := unalias(rt).Underlying().(*types.Slice); ok {
		et = sl.Elem()
	} else {
		return f.freshVal("append", rt)
	}
	sort := f.TE.Sort(et)
	name := elemComp(sort)
	h := f.comp(st, name, arraySort(SRef, arraySort(BV(64), sort)))
	n := app("llen", BV(64), s.T)
	var m Term       // number of appended elements
	var src func(i Term) Term
	if len(args) < 2 {
		return s
	}
	a := args[1]
	switch a.T.Sort {
	case SSlice:
		m = app("llen", BV(64), a.T)
		src = func(i Term) Term {
			return sel(sel(h, app("lref", SRef, a.T)), app("bvadd", BV(64), app("loff", BV(64), a.T), i))
		}
	case SStr:
		m = app("slen", BV(64), a.T)
		src = func(i Term) Term {
			return sel(app("sarr", arraySort(BV(64), BV(8)), a.T), app("bvadd", BV(64), app("soff", BV(64), a.T), i))
		}
	default:
		return f.freshVal("append", rt)
	}
	newLen := f.SC.Define("applen", app("bvadd", BV(64), n, m))
	fits := app("bvule", SBool, newLen, app("lcap", BV(64), s.T))
	fresh := f.newRef(st)
	newCap := f.SC.Declare("appcap", BV(64))
	f.assume(st, and(app("bvuge", SBool, newCap, newLen), app("bvule", SBool, newCap, u64(1<<56))))
	ref := ite(fits, app("lref", SRef, s.T), fresh)
	off := f.SC.Define("appoff", ite(fits, app("loff", BV(64), s.T), u64(0)))
	cp := ite(fits, app("lcap", BV(64), s.T), newCap)
	res := f.SC.Define("app", app("mkslice", SSlice, ref, off, newLen, cp))
	// contents: new backing array object (for ref) agrees with old on [0,n) and with src on [n, n+m)
	arr := f.SC.Declare("apparr", arraySort(BV(64), sort))
	oldArr := sel(h, app("lref", SRef, s.T))
	// in-place case: untouched cells keep their value (whole array except the appended window)
	f.SC.Assert(implies(st.Reach, Term{fmt.Sprintf("(forall ((i (_ BitVec 64))) (! (=> (bvult i %s) (= (select %s (bvadd %s i)) (select %s (bvadd (loff %s) i)))) :pattern ((select %s (bvadd %s i)))))",
		n.S, arr.S, off.S, oldArr.S, s.T.S, arr.S, off.S), SBool}).S)
	f.SC.Assert(implies(and(st.Reach, fits), Term{fmt.Sprintf("(forall ((j (_ BitVec 64))) (! (=> (or (bvult j (loff %s)) (bvuge j (bvadd (loff %s) %s))) (= (select %s j) (select %s j))) :pattern ((select %s j))))",
		s.T.S, s.T.S, newLen.S, arr.S, oldArr.S, arr.S), SBool}).S)
	if mw, ok := constU64(m); ok && mw <= 16 {
		for i := uint64(0); i < mw; i++ {
			idx := app("bvadd", BV(64), off, app("bvadd", BV(64), n, u64(i)))
			f.assume(st, eq(sel(arr, idx), src(u64(i))))
		}
	} else {
		f.SC.Assert(implies(st.Reach, Term{fmt.Sprintf("(forall ((i (_ BitVec 64))) (! (=> (bvult i %s) (= (select %s (bvadd %s (bvadd %s i))) %s)) :pattern ((select %s (bvadd %s (bvadd %s i))))))",
			m.S, arr.S, off.S, n.S, src(Term{"i", BV(64)}).S, arr.S, off.S, n.S), SBool}).S)
	}
	f.setComp(st, name, store(h, ref, arr))
	return Val{T: res, Typ: rt}
}

func constU64(t Term) (uint64, bool) {
	if strings.HasPrefix(t.S, "#x") && len(t.S) == 18 {
		var v uint64
		if _, err := fmt.Sscanf(t.S[2:], "%x", &v); err == nil {
			return v, true
		}
	}
	return 0, false
}

func (f *FnVC) copyOp(st *State, args []Val, rt types.Type) Val {
	dst, src := args[0], args[1]
	sl, ok := unalias(dst.Typ).Underlying().(*types.Slice)
	if !ok {
		return f.freshVal("copy", rt)
	}
	sort := f.TE.Sort(sl.Elem())
	name := elemComp(sort)
	h := f.comp(st, name, arraySort(SRef, arraySort(BV(64), sort)))
	dn := app("llen", BV(64), dst.T)
	var sn Term
	var srcAt func(i Term) Term
	if src.T.Sort == SStr {
		sn = app("slen", BV(64), src.T)
		srcAt = func(i Term) Term {
			return sel(app("sarr", arraySort(BV(64), BV(8)), src.T), app("bvadd", BV(64), app("soff", BV(64), src.T), i))
		}
	} else {
		sn = app("llen", BV(64), src.T)
		srcAt = func(i Term) Term {
			return sel(sel(h, app("lref", SRef, src.T)), app("bvadd", BV(64), app("loff", BV(64), src.T), i))
		}
	}
	n := f.SC.Define("copyn", ite(app("bvult", SBool, dn, sn), dn, sn))
	dref := app("lref", SRef, dst.T)
	doff := app("loff", BV(64), dst.T)
	oldArr := sel(h, dref)
	if nc, ok := constU64(n); ok && nc <= 32 {
		arr := oldArr
		for i := uint64(0); i < nc; i++ {
			arr = store(arr, app("bvadd", BV(64), doff, u64(i)), srcAt(u64(i)))
		}
		f.setComp(st, name, store(h, dref, arr))
		return Val{T: n, Typ: rt}
	}
	arr := f.SC.Declare("copyarr", arraySort(BV(64), sort))
	f.SC.Assert(implies(st.Reach, Term{fmt.Sprintf("(forall ((i (_ BitVec 64))) (! (=> (bvult i %s) (= (select %s (bvadd %s i)) %s)) :pattern ((select %s (bvadd %s i)))))",
		n.S, arr.S, doff.S, srcAt(Term{"i", BV(64)}).S, arr.S, doff.S), SBool}).S)
	f.SC.Assert(implies(st.Reach, Term{fmt.Sprintf("(forall ((j (_ BitVec 64))) (! (=> (or (bvult j %s) (bvuge j (bvadd %s %s))) (= (select %s j) (select %s j))) :pattern ((select %s j))))",
		doff.S, doff.S, n.S, arr.S, oldArr.S, arr.S), SBool}).S)
	f.setComp(st, name, store(h, dref, arr))
	return Val{T: n, Typ: rt}
}

// ---- defers --------------------------------------------------------------------------------------

func (f *FnVC) runDefers(st *State) {
	for i := len(f.defers) - 1; i >= 0; i-- {
		d := f.defers[i]
		c := &d.instr.Call
		var rt types.Type = c.Signature().Results()
		if c.Signature().Results().Len() == 1 {
			rt = c.Signature().Results().At(0).Type()
		}
		// run the deferred call on a branch state and merge by the "was deferred on this path" condition
		br := st.clone()
		br.Reach = f.SC.Define("reach_defer", and(st.Reach, d.cond))
		if b, ok := c.Value.(*ssa.Builtin); ok {
			f.builtinWithArgs(br, b, d.args, rt, d.instr.Pos())
		} else {
			keys, fn, display := f.calleeKeys(c)
			f.doCall(br, d.instr, c, keys, fn, display, d.args, rt, d.instr.Pos())
		}
		skip := st.clone()
		skip.Reach = f.SC.Define("reach_nodefer", and(st.Reach, not(d.cond)))
		merged := f.mergeStates([]edge{{cond: br.Reach, state: br}, {cond: skip.Reach, state: skip}})
		st.Heap = merged.Heap
	}
}

func (f *FnVC) builtinWithArgs(st *State, b *ssa.Builtin, args []Val, rt types.Type, pos token.Pos) {
	// only side-effect free or unmodelled builtins are deferred in practice (close, recover, delete)
	f.abstracted("deferred builtin " + b.Name())
}

// placeholderSite: a labelled call site that has not been executed on the paths processed so far. Its values are
// arbitrary and called(label) is false; it only gives res()/arg() a well-typed meaning in implications.
func (f *FnVC) placeholderSite(label string) *callSite {
	if f.placeholders == nil {
		f.placeholders = map[string]*callSite{}
	}
	if s, ok := f.placeholders[label]; ok {
		return s
	}
	if f.Ct == nil {
		return nil
	}
	for _, b := range f.Fn.Blocks {
		for _, in := range b.Instrs {
			var c *ssa.CallCommon
			var rtv ssa.Value
			switch x := in.(type) {
			case *ssa.Call:
				c, rtv = &x.Call, x
			case *ssa.Defer:
				c = &x.Call
			case *ssa.Go:
				c = &x.Call
			}
			if c == nil {
				continue
			}
			_, _, display := f.calleeKeys(c)
			for _, ac := range f.Ct.AtCalls {
				if ac.Label != label || !matchCallee(ac.Pattern, display) {
					continue
				}
				if ac.ArgType != "" && !f.argTypeMatches(c, ac.ArgType) {
					continue
				}
				s := &callSite{label: label, reach: boolLit(false)}
				if c.IsInvoke() {
					s.args = append(s.args, f.freshVal("ph_arg", c.Value.Type()))
				}
				for _, a := range c.Args {
					s.args = append(s.args, f.freshVal("ph_arg", a.Type()))
				}
				if rtv != nil {
					s.res = f.freshVal("ph_res", rtv.Type())
				}
				f.placeholders[label] = s
				return s
			}
		}
	}
	return nil
}
