package vc

import (
	"fmt"
	"go/types"
	"strings"

	"golang.org/x/tools/go/ssa"
)

// Maps: ref -> (has: Array K Bool, val: Array K V, len: BV64). String keys are canonicalised through strid.

func (f *FnVC) mapKeySort(kt types.Type) string {
	s := f.TE.Sort(kt)
	if s == SStr || strings.HasPrefix(s, "(Array ") {
		return SInt // canonical key ids (strings: by content; arrays: injective id)
	}
	return s
}

func (f *FnVC) mapKey(k Val) Term {
	if k.T.Sort == SStr {
		if !f.SC.HasFun("strid") {
			f.SC.DeclareFun("strid", []string{SStr}, SInt)
			f.SC.Assert("(forall ((a Str) (b Str)) (! (= (= (strid a) (strid b)) (streq a b)) :pattern ((strid a) (strid b))))")
		}
		return app("strid", SInt, k.T)
	}
	if strings.HasPrefix(k.T.Sort, "(Array ") {
		// array-valued keys (e.g. [16]byte UUIDs): an injective id, because some solvers reject arrays indexed by arrays
		fn := "kid_" + sortKey(k.T.Sort)
		if !f.SC.HasFun(fn) {
			f.SC.DeclareFun(fn, []string{k.T.Sort}, SInt)
			f.SC.Assert(fmt.Sprintf("(forall ((a %s) (b %s)) (! (=> (= (%s a) (%s b)) (= a b)) :pattern ((%s a) (%s b))))", k.T.Sort, k.T.Sort, fn, fn, fn, fn))
		}
		return app(fn, SInt, k.T)
	}
	return k.T
}

func (f *FnVC) mapComps(mt *types.Map) (has, val, ln string, ks, vs string) {
	ks = f.mapKeySort(mt.Key())
	vs = f.TE.Sort(mt.Elem())
	// one heap component per Go map type: maps of different types can never alias
	id := sanitize(shortType(mt))
	return "MH$" + id, "MV$" + id, "ML$" + id, ks, vs
}

func (f *FnVC) mapInit(st *State, r Term, mt *types.Map) {
	has, _, ln, ks, _ := f.mapComps(mt)
	h := f.comp(st, has, arraySort(SRef, arraySort(ks, SBool)))
	f.setComp(st, has, store(h, r, Term{fmt.Sprintf("((as const (Array %s Bool)) false)", ks), arraySort(ks, SBool)}))
	l := f.comp(st, ln, arraySort(SRef, BV(64)))
	f.setComp(st, ln, store(l, r, u64(0)))
}

func (f *FnVC) mapHas(st *State, m Term, mt *types.Map, k Term) Term {
	has, _, _, ks, _ := f.mapComps(mt)
	h := f.comp(st, has, arraySort(SRef, arraySort(ks, SBool)))
	return sel(sel(h, m), k)
}

func (f *FnVC) mapVal(st *State, m Term, mt *types.Map, k Term) Term {
	_, val, _, ks, vs := f.mapComps(mt)
	h := f.comp(st, val, arraySort(SRef, arraySort(ks, vs)))
	return sel(sel(h, m), k)
}

func (f *FnVC) mapLen(st *State, m Term, mt *types.Map) Term {
	_, _, ln, _, _ := f.mapComps(mt)
	l := f.comp(st, ln, arraySort(SRef, BV(64)))
	// a nil map has length 0 (as the code's own len() is encoded)
	return ite(eq(m, Term{"0", SRef}), u64(0), sel(l, m))
}

func (f *FnVC) lookup(st *State, x *ssa.Lookup) {
	m := f.get(x.X)
	k := f.get(x.Index)
	mt, ok := unalias(x.X.Type()).Underlying().(*types.Map)
	if !ok { // string index via Lookup
		i := f.idx64(k)
		f.boundsCheck(st, i, app("slen", BV(64), m.T), x.Pos(), "string index out of range")
		f.set(x, Val{T: sel(app("sarr", arraySort(BV(64), BV(8)), m.T), app("bvadd", BV(64), app("soff", BV(64), m.T), i)), Typ: x.Type()})
		return
	}
	f.guardedObjCheck(st, m, false, x.Pos())
	// contract hook: `at-call maplookup: assert ...` with arg0 = map, arg1 = key (also `maplookup:<field>` for a map field)
	if f.Ct != nil && len(f.Ct.AtCalls) > 0 {
		f.noteSiteRaw(st, "maplookup", []Val{m, k}, x.Pos())
		if fn := sourceFieldName(x.X); fn != "" {
			f.noteSiteRaw(st, "maplookup:"+fn, []Val{m, k}, x.Pos())
		}
	}
	kt := f.mapKey(k)
	has := and(not(eq(m.T, Term{"0", SRef})), f.mapHas(st, m.T, mt, kt))
	v := ite(has, f.mapVal(st, m.T, mt, kt), f.TE.Zero(mt.Elem()))
	vv := Val{T: f.SC.Define("mv", v), Typ: mt.Elem()}
	f.assumeKnown(st, vv)
	f.typeInvariant(st, vv)
	if x.CommaOk {
		f.set(x, Val{Typ: x.Type(), Tuple: []Val{vv, {T: f.SC.Define("mok", has), Typ: types.Typ[types.Bool]}}})
		return
	}
	f.set(x, vv)
}

func (f *FnVC) mapUpdate(st *State, x *ssa.MapUpdate) {
	m := f.get(x.Map)
	k := f.get(x.Key)
	v := f.get(x.Value)
	mt := unalias(x.Map.Type()).Underlying().(*types.Map)
	f.guardedObjCheck(st, m, true, x.Pos())
	if f.checks["nil"] {
		f.oblige("nilmap", f.srcKey(x.Pos()), st, not(eq(m.T, Term{"0", SRef})), x.Pos(), "assignment to entry in nil map")
	}
	// contract hook: `at-call mapupdate: assert ...` with arg0 = map, arg1 = key, arg2 = value
	if f.Ct != nil && len(f.Ct.AtCalls) > 0 {
		f.noteSiteRaw(st, "mapupdate", []Val{m, k, v}, x.Pos())
		if fn := sourceFieldName(x.Map); fn != "" {
			f.noteSiteRaw(st, "mapupdate:"+fn, []Val{m, k, v}, x.Pos())
		}
	}
	f.mapStore(st, m.T, mt, f.mapKey(k), &v.T)
	// execution continues past an assignment to a map entry only if the map was not nil (Go panics otherwise)
	f.assume(st, not(eq(m.T, Term{"0", SRef})))
}

// mapStore sets (v != nil) or deletes (v == nil) key k.
func (f *FnVC) mapStore(st *State, m Term, mt *types.Map, k Term, v *Term) {
	has, val, ln, ks, vs := f.mapComps(mt)
	h := f.comp(st, has, arraySort(SRef, arraySort(ks, SBool)))
	l := f.comp(st, ln, arraySort(SRef, BV(64)))
	had := sel(sel(h, m), k)
	curLen := sel(l, m)
	if v != nil {
		vh := f.comp(st, val, arraySort(SRef, arraySort(ks, vs)))
		f.setComp(st, val, store(vh, m, store(sel(vh, m), k, *v)))
		f.setComp(st, has, store(h, m, store(sel(h, m), k, boolLit(true))))
		f.setComp(st, ln, store(l, m, ite(had, curLen, app("bvadd", BV(64), curLen, u64(1)))))
	} else {
		f.setComp(st, has, store(h, m, store(sel(h, m), k, boolLit(false))))
		f.setComp(st, ln, store(l, m, ite(had, app("bvsub", BV(64), curLen, u64(1)), curLen)))
	}
}

// rangeInit / next: iteration over maps and strings. The iterator visits an arbitrary key that is present
// (maps: order and the set of remaining keys are not modelled: each Next yields ok nondeterministically,
// and when ok an arbitrary present key). This over-approximates every real iteration.
func (f *FnVC) rangeInit(st *State, x *ssa.Range) {
	v := f.get(x.X)
	if _, ok := unalias(x.X.Type()).Underlying().(*types.Map); ok {
		f.guardedObjCheck(st, v, false, x.Pos())
	}
	f.set(x, Val{T: v.T, Typ: x.X.Type(), GuardLock: v.GuardLock})
}

func (f *FnVC) next(st *State, x *ssa.Next) {
	it := f.get(x.Iter)
	tup := x.Type().(*types.Tuple)
	ok := f.SC.Declare("next_ok", SBool)
	kt, vt := tup.At(1).Type(), tup.At(2).Type()
	if x.IsString {
		f.abstracted("range over string (runes not modelled)")
		f.set(x, Val{Typ: x.Type(), Tuple: []Val{{T: ok, Typ: types.Typ[types.Bool]}, f.freshVal("rk", kt), f.freshVal("rv", vt)}})
		return
	}
	mt, isMap := unalias(it.Typ).Underlying().(*types.Map)
	if !isMap {
		f.set(x, f.freshVal("next", x.Type()))
		return
	}
	f.guardedObjCheck(st, it, false, x.Pos())
	// a nil map has no entries to iterate
	f.assume(st, implies(ok, not(eq(it.T, Term{"0", SRef}))))
	var kv, vv Val
	ksort := f.mapKeySort(mt.Key())
	if ksort == SInt && f.TE.Sort(mt.Key()) == SStr {
		kv = f.freshVal("rk", mt.Key())
		f.assume(st, implies(ok, f.mapHas(st, it.T, mt, f.mapKey(kv))))
		vv = Val{T: f.SC.Define("rv", f.mapVal(st, it.T, mt, f.mapKey(kv))), Typ: mt.Elem()}
	} else {
		kv = f.freshVal("rk", mt.Key())
		f.assume(st, implies(ok, f.mapHas(st, it.T, mt, f.mapKey(kv))))
		vv = Val{T: f.SC.Define("rv", f.mapVal(st, it.T, mt, f.mapKey(kv))), Typ: mt.Elem()}
	}
	f.assumeKnown(st, vv)
	kv.Typ, vv.Typ = kt, vt
	f.set(x, Val{Typ: x.Type(), Tuple: []Val{{T: ok, Typ: types.Typ[types.Bool]}, kv, vv}})
}
