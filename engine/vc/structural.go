package vc

import (
	"fmt"
	"go/types"
	"strings"

	"golang.org/x/tools/go/ssa"
)

// dynCallName names a call through a function value by where the value was loaded from:
// "dyn.<field>" for struct fields, "dyn.<var>" for captured / local variables.
func dynCallName(v ssa.Value) string {
	if u, ok := v.(*ssa.UnOp); ok {
		switch a := u.X.(type) {
		case *ssa.FieldAddr:
			st := unalias(a.X.Type()).Underlying().(*types.Pointer).Elem().Underlying().(*types.Struct)
			return "dyn." + st.Field(a.Field).Name()
		case *ssa.FreeVar:
			return "dyn." + a.Name()
		case *ssa.Alloc:
			return "dyn." + a.Comment
		}
	}
	if p, ok := v.(*ssa.Parameter); ok {
		return "dyn." + p.Name()
	}
	if p, ok := v.(*ssa.Phi); ok && p.Comment != "" {
		return "dyn." + p.Comment
	}
	return "dyn." + v.Name()
}

// StructDecl is a structural obligation decided on the SSA alone.
//
//	recovers F            : F defers (in its entry block) a closure that calls recover() in its entry block and never panics
//	closure-only A in B,C : the closure A (created in its parent) is only ever callable from the closures B, C
type StructDecl struct {
	Kind  string
	Args  []string
	Props []string
	Pkg   string
	File  string
	Line  int
}

func (e *Engine) StructuralObligations(prop string) []*Obligation {
	var out []*Obligation
	for _, sd := range e.Structs {
		use := false
		for _, p := range sd.Props {
			if p == prop {
				use = true
			}
		}
		if !use {
			continue
		}
		ok, detail := false, ""
		switch sd.Kind {
		case "recovers":
			ok, detail = e.checkRecovers(qualify(sd.Args[0], sd.Pkg))
		case "closure-only":
			var allowed []string
			for _, a := range sd.Args[1:] {
				allowed = append(allowed, qualify(a, sd.Pkg))
			}
			ok, detail = e.checkClosureOnly(qualify(sd.Args[0], sd.Pkg), allowed)
		case "recovers-errors":
			ok, detail = e.checkRecoversErrors(qualify(sd.Args[0], sd.Pkg))
		case "uses-param":
			ok, detail = e.checkUsesParam(qualify(sd.Args[0], sd.Pkg), sd.Args[1])
		case "passed-only":
			ok, detail = e.checkPassedOnly(qualify(sd.Args[0], sd.Pkg), sd.Args[1])
		default:
			detail = "unknown structural declaration"
		}
		out = append(out, &Obligation{Name: "structural/" + sd.Kind + "@" + strings.Join(sd.Args, ","), Kind: "structural", Func: "structural",
			Structural: true, StructOK: ok, SC: NewScript(), Desc: sd.Kind + " " + strings.Join(sd.Args, " ") + ": " + detail,
			Pos: fmt.Sprintf("%s:%d", sd.File, sd.Line)})
	}
	return out
}

func (e *Engine) checkRecovers(key string) (bool, string) {
	fn := e.FuncByKey(key)
	if fn == nil || fn.Blocks == nil {
		return false, "function not found"
	}
	// the deferred recovering closure must be installed in the entry block before any call
	for _, in := range fn.Blocks[0].Instrs {
		switch x := in.(type) {
		case *ssa.Defer:
			mc, ok := x.Call.Value.(*ssa.MakeClosure)
			var cl *ssa.Function
			if ok {
				cl = mc.Fn.(*ssa.Function)
			} else if f2, ok := x.Call.Value.(*ssa.Function); ok {
				cl = f2
			}
			if cl == nil || cl.Blocks == nil {
				continue
			}
			rec := false
			for _, ci := range cl.Blocks[0].Instrs {
				if c, ok := ci.(*ssa.Call); ok {
					if b, ok := c.Call.Value.(*ssa.Builtin); ok && b.Name() == "recover" {
						rec = true
					}
				}
			}
			if !rec {
				continue
			}
			for _, b := range cl.Blocks {
				for _, ci := range b.Instrs {
					if _, isPanic := ci.(*ssa.Panic); isPanic {
						return false, "the recovering closure re-panics"
					}
				}
			}
			if fn.Recover == nil {
				return false, "no recover block"
			}
			return true, "entry block defers " + shortKey(FuncKey(cl)) + " which calls recover() unconditionally and never panics"
		case *ssa.Call, *ssa.Go:
			return false, "a call precedes the deferred recover in the entry block"
		}
	}
	return false, "no deferred recovering closure in the entry block"
}

// checkClosureOnly: closure A's value is stored only into one variable cell of the parent; that cell is captured only by
// the allowed closures (and A itself), never called directly by the parent, never passed elsewhere.
func (e *Engine) checkClosureOnly(key string, allowed []string) (bool, string) {
	fn := e.FuncByKey(key)
	if fn == nil || fn.Parent() == nil {
		return false, "closure not found"
	}
	parent := fn.Parent()
	isAllowed := func(f *ssa.Function) bool {
		k := FuncKey(f)
		if k == key {
			return true
		}
		for _, a := range allowed {
			if a == k {
				return true
			}
		}
		return false
	}
	var makers []*ssa.MakeClosure
	for _, b := range parent.Blocks {
		for _, in := range b.Instrs {
			if mc, ok := in.(*ssa.MakeClosure); ok && mc.Fn == ssa.Value(fn) {
				makers = append(makers, mc)
			}
		}
	}
	if len(makers) != 1 {
		return false, fmt.Sprintf("expected one MakeClosure in %s, found %d", shortKey(FuncKey(parent)), len(makers))
	}
	var cells []ssa.Value
	for _, ref := range *makers[0].Referrers() {
		switch r := ref.(type) {
		case *ssa.Store:
			if r.Val == ssa.Value(makers[0]) {
				cells = append(cells, r.Addr)
				continue
			}
			return false, "closure value used as a store address"
		case *ssa.DebugRef:
		case *ssa.Call:
			if r.Call.Value == ssa.Value(makers[0]) {
				return false, "called directly by " + shortKey(FuncKey(parent))
			}
			return false, "closure value passed to a call in " + shortKey(FuncKey(parent))
		default:
			return false, fmt.Sprintf("closure value escapes through %T", ref)
		}
	}
	for _, cell := range cells {
		al, ok := cell.(*ssa.Alloc)
		if !ok {
			return false, "closure stored outside a local variable"
		}
		for _, ref := range *al.Referrers() {
			switch r := ref.(type) {
			case *ssa.Store:
				if r.Addr != ssa.Value(al) {
					return false, "variable holding the closure is stored elsewhere"
				}
			case *ssa.DebugRef:
			case *ssa.MakeClosure:
				if !isAllowed(r.Fn.(*ssa.Function)) {
					return false, "captured by " + shortKey(FuncKey(r.Fn.(*ssa.Function)))
				}
			case *ssa.UnOp:
				// a load in the parent: the loaded value must not be called or passed on
				for _, lr := range *r.Referrers() {
					if _, isDbg := lr.(*ssa.DebugRef); !isDbg {
						return false, "variable holding the closure is used directly in " + shortKey(FuncKey(parent))
					}
				}
			default:
				return false, fmt.Sprintf("variable holding the closure escapes through %T", ref)
			}
		}
	}
	return true, fmt.Sprintf("only reachable from %v", allowed)
}

// sourceFieldName: the struct field a value was loaded from ("" if it is not a direct field load).
func sourceFieldName(v ssa.Value) string {
	if u, ok := v.(*ssa.UnOp); ok {
		if fa, ok := u.X.(*ssa.FieldAddr); ok {
			st := unalias(fa.X.Type()).Underlying().(*types.Pointer).Elem().Underlying().(*types.Struct)
			return st.Field(fa.Field).Name()
		}
	}
	return ""
}

// checkRecoversErrors: F defers (entry block, before any call) a function R whose entry block calls recover() and whose
// only panic re-raises the recovered value on the failed branch of a comma-ok assertion to error. So every panic with an
// error value (runtime errors included) that escapes F's body becomes F's returned error; any other value propagates.
func (e *Engine) checkRecoversErrors(key string) (bool, string) {
	fn := e.FuncByKey(key)
	if fn == nil || fn.Blocks == nil {
		return false, "function not found"
	}
	for _, in := range fn.Blocks[0].Instrs {
		switch x := in.(type) {
		case *ssa.Defer:
			r, ok := x.Call.Value.(*ssa.Function)
			if !ok || r.Blocks == nil {
				continue
			}
			var rec ssa.Value
			for _, ci := range r.Blocks[0].Instrs {
				if c, ok := ci.(*ssa.Call); ok {
					if b, ok := c.Call.Value.(*ssa.Builtin); ok && b.Name() == "recover" {
						rec = c
					}
				}
			}
			if rec == nil {
				continue
			}
			if len(x.Call.Args) != 1 {
				return false, "the deferred recovering function does not take the error pointer"
			}
			if al, ok := x.Call.Args[0].(*ssa.Alloc); !ok || al.Comment != "err" && !isNamedResult(fn, al) {
				return false, "the deferred recovering function is not handed the address of the named error result"
			}
			stores := 0
			for _, b := range r.Blocks {
				for _, ci := range b.Instrs {
					switch y := ci.(type) {
					case *ssa.Panic:
						if y.X != rec {
							return false, "the recovering function panics with something other than the recovered value"
						}
						if len(b.Preds) != 1 {
							return false, "re-panic block has several predecessors"
						}
						pred := b.Preds[0]
						iff, ok := pred.Instrs[len(pred.Instrs)-1].(*ssa.If)
						if !ok || pred.Succs[1] != b {
							return false, "re-panic is not the failed branch of a test"
						}
						ex, ok := iff.Cond.(*ssa.Extract)
						if !ok || ex.Index != 1 {
							return false, "re-panic is not guarded by a comma-ok type assertion"
						}
						ta, ok := ex.Tuple.(*ssa.TypeAssert)
						if !ok || !ta.CommaOk || ta.X != rec || !types.Identical(ta.AssertedType, types.Universe.Lookup("error").Type()) {
							return false, "re-panic is not guarded by r.(error)"
						}
					case *ssa.Store:
						if y.Addr == ssa.Value(r.Params[0]) {
							stores++
						}
					}
				}
			}
			if stores == 0 {
				return false, "the recovering function never stores the recovered error"
			}
			if fn.Recover == nil {
				return false, "no recover block"
			}
			return true, "entry block defers " + shortKey(FuncKey(r)) + ", which recovers, stores error values into the result and re-panics only non-error values"
		case *ssa.Call, *ssa.Go:
			return false, "a call precedes the deferred recover in the entry block"
		}
	}
	return false, "no deferred recovering function in the entry block"
}

func isNamedResult(fn *ssa.Function, al *ssa.Alloc) bool {
	res := fn.Signature.Results()
	for i := 0; i < res.Len(); i++ {
		if res.At(i).Name() != "" && res.At(i).Name() == al.Comment {
			return true
		}
	}
	return false
}

// checkPassedOnly: closure A is created exactly once and every use of the closure value is as an argument of a direct
// call of the function named callee (matched on the short name).
func (e *Engine) checkPassedOnly(key, callee string) (bool, string) {
	fn := e.FuncByKey(key)
	if fn == nil || fn.Parent() == nil {
		return false, "closure not found"
	}
	parent := fn.Parent()
	var makers []*ssa.MakeClosure
	for _, b := range parent.Blocks {
		for _, in := range b.Instrs {
			if mc, ok := in.(*ssa.MakeClosure); ok && mc.Fn == ssa.Value(fn) {
				makers = append(makers, mc)
			}
		}
	}
	if len(makers) != 1 {
		return false, fmt.Sprintf("expected one MakeClosure in %s, found %d", shortKey(FuncKey(parent)), len(makers))
	}
	uses := 0
	for _, ref := range *makers[0].Referrers() {
		switch r := ref.(type) {
		case *ssa.DebugRef:
		case *ssa.Call:
			sf, ok := r.Call.Value.(*ssa.Function)
			if !ok || !matchCallee(callee, FuncKey(sf)) {
				return false, "closure passed to or called as something other than " + callee
			}
			uses++
		default:
			return false, fmt.Sprintf("closure value escapes through %T", ref)
		}
	}
	if uses == 0 {
		return false, "closure is never passed to " + callee
	}
	return true, "only use: argument of " + callee
}

// checkUsesParam: the named parameter of the function has at least one use in its body (a looked-up object that is then
// ignored - the function acting on something else instead - fails this).
func (e *Engine) checkUsesParam(key, name string) (bool, string) {
	fn := e.FuncByKey(key)
	if fn == nil || fn.Blocks == nil {
		return false, "function not found"
	}
	for _, p := range fn.Params {
		if p.Name() != name {
			continue
		}
		if p.Referrers() != nil {
			for _, r := range *p.Referrers() {
				if _, dbg := r.(*ssa.DebugRef); !dbg {
					return true, "parameter " + name + " is used"
				}
			}
		}
		return false, "parameter " + name + " is never used: the function does not act on it"
	}
	return false, "no parameter " + name
}
