package vc

import (
	"fmt"
	"go/constant"
	"go/token"
	"go/types"
	"os"
	"regexp"
	"sort"
	"strings"

	"golang.org/x/tools/go/ssa"
)

// Codec pairs (C04): for every packet type with an Encode and a Decode method the two functions are abstracted, path by
// path, into the sequence of wire tokens they write / read, for one concrete protocol number at a time:
//   - module functions that take the stream (an io.Reader / io.Writer, a *util.PReader / *util.PWriter) are inlined;
//   - such a function is a LEAF (one token, named after the function with Read/Write/Encode/Decode stripped) when it
//     hands the stream to code outside the module (rd.Read, io.ReadFull, binary.Write, an NBT decoder, ...);
//   - protocol gates (c.Protocol.GreaterEqual(version.X), c.Protocol == version.X.Protocol, ...) are evaluated for the
//     protocol number under analysis; `err != nil` tests follow the success edge; error returns and panics end a path
//     without a packet; every other branch forks;
//   - a loop that moves the stream contributes the markers "{" (entry) and "*" (back edge) and is walked for zero and
//     one iteration; since gates do not change between iterations, equal marked sequence sets mean equal prefix, body and
//     suffix sets, hence equal token languages for every iteration count (the iteration COUNT itself is not compared).
// For every protocol number at, just below and just above every version constant either function compares against, the
// set of token sequences of the encoder must equal that of the decoder. Anything else (dynamic calls that receive the
// stream, closures capturing it, too many paths) puts the pair outside the fragment: reported as unproved, never claimed.

const (
	cpMaxSeqs  = 6000
	cpMaxSteps = 400000
)

type cpCtx struct {
	e      *Engine
	p      int64
	steps  int
	fail   string
	active map[*ssa.Function]bool
	memo   map[*ssa.Function][]string
}

func (e *Engine) isModuleFn(f *ssa.Function) bool {
	return f != nil && f.Package() != nil && strings.HasPrefix(f.Package().Pkg.Path(), e.ModulePath) && f.Blocks != nil
}

func streamTyped(t types.Type) bool {
	t = unalias(t)
	if p, ok := t.(*types.Pointer); ok {
		if n, ok := unalias(p.Elem()).(*types.Named); ok {
			s := n.Obj().Name()
			if (s == "PReader" || s == "PWriter") && n.Obj().Pkg() != nil && strings.HasSuffix(n.Obj().Pkg().Path(), "/proto/util") {
				return true
			}
		}
		return false
	}
	it, ok := t.Underlying().(*types.Interface)
	if !ok {
		return false
	}
	for i := 0; i < it.NumMethods(); i++ {
		switch it.Method(i).Name() {
		case "Read", "Write", "ReadByte", "WriteByte":
			return true
		}
	}
	return false
}

func callHasStream(c *ssa.CallCommon) bool {
	for _, a := range c.Args {
		if streamTyped(a.Type()) && !localStream(a) {
			return true
		}
	}
	return false
}

// localStream: a stream created in this function (a scratch buffer), not the packet's stream.
func localStream(v ssa.Value) bool {
	for {
		switch x := v.(type) {
		case *ssa.MakeInterface:
			v = x.X
			continue
		case *ssa.ChangeInterface:
			v = x.X
			continue
		case *ssa.Alloc:
			return true
		case *ssa.Call:
			if f, ok := x.Call.Value.(*ssa.Function); ok && f.Package() != nil && f.Package().Pkg.Path() == "bytes" {
				return true
			}
		}
		return false
	}
}

// isLeaf: the function hands a stream to code outside the module.
func (e *Engine) cpIsLeaf(fn *ssa.Function) bool {
	for _, b := range fn.Blocks {
		for _, in := range b.Instrs {
			c := callCommonOf(in)
			if c == nil {
				continue
			}
			if c.IsInvoke() {
				if streamTyped(c.Value.Type()) {
					return true
				}
				continue
			}
			if f, ok := c.Value.(*ssa.Function); ok && !e.isModuleFn(f) && callHasStream(c) {
				return true
			}
		}
	}
	return false
}

func callCommonOf(in ssa.Instruction) *ssa.CallCommon {
	switch x := in.(type) {
	case *ssa.Call:
		return &x.Call
	case *ssa.Defer:
		return &x.Call
	case *ssa.Go:
		return &x.Call
	}
	return nil
}

// cpClassify: what a call contributes. kind: "" nothing, "tok" a token, "inline" a callee to expand, "out" outside.
func (e *Engine) cpClassify(c *ssa.CallCommon) (kind, tok string, callee *ssa.Function) {
	if c.IsInvoke() {
		if streamTyped(c.Value.Type()) {
			return "tok", "raw", nil
		}
		if callHasStream(c) {
			return "tok", "dyn." + normTok(c.Method.Name()), nil
		}
		return "", "", nil
	}
	f, ok := c.Value.(*ssa.Function)
	if !ok {
		if _, isB := c.Value.(*ssa.Builtin); isB {
			return "", "", nil
		}
		if callHasStream(c) {
			return "out", "dynamic call receives the stream", nil
		}
		if mc, isMC := c.Value.(*ssa.MakeClosure); isMC {
			for _, b := range mc.Bindings {
				if streamTyped(b.Type()) || streamTyped(derefType(b.Type())) {
					return "out", "closure captures the stream", nil
				}
			}
		}
		return "", "", nil
	}
	if !callHasStream(c) {
		return "", "", nil
	}
	if !e.isModuleFn(f) {
		if f.Name() == "LimitReader" || f.Name() == "NewReader" || f.Name() == "NewWriter" {
			return "", "", nil // wraps the stream, consumes nothing
		}
		return "tok", "raw", nil
	}
	if strings.HasSuffix(f.Package().Pkg.Path(), "/proto/util") {
		// the primitive vocabulary: every util reader / writer is one token, except the transparent wrappers
		n := f.Name()
		wrapper := strings.HasPrefix(n, "PRead") || strings.HasPrefix(n, "PWrite") || n == "PVarInt" || f.Signature.Recv() != nil ||
			n == "PanicReader" || n == "PanicWriter" || cpUtilInline[n]
		if !wrapper {
			return "tok", normTok(n), nil
		}
		return "inline", "", f
	}
	return "inline", "", f
}

// util functions that are only compositions of other primitives (expanded so that both directions meet on the same tokens)
var cpUtilInline = map[string]bool{"ReadUnixMilli": true, "ReadCompoundTag": true, "WriteStrings": true, "ReadStringArray": true,
	"ReadString": true, "ReadBytes": true}

func normTok(s string) string {
	low := strings.ToLower(s)
	for _, p := range []string{"pwrite", "pread", "write", "read", "encode", "decode"} {
		if strings.HasPrefix(low, p) && len(s) > len(p) {
			s = s[len(p):]
			break
		}
	}
	for _, suf := range []string{"Max", "Val", "ReturnN", "Old", "Len"} {
		if strings.HasSuffix(s, suf) && len(s) > len(suf) {
			s = strings.TrimSuffix(s, suf)
		}
	}
	switch s {
	case "Byte", "Uint8", "Int8", "Bool", "Ok":
		return "U8"
	case "Int", "Int32", "Uint32":
		return "I32"
	case "Int16", "Uint16":
		return "I16"
	case "Int64", "Uint64", "UnixMilli":
		return "I64"
	case "UUIDIntArray": // four big-endian int32 = the same 16 bytes as the two big-endian int64 of UUID
		return "UUID"
	case "CompoundTag", "CompoundBinaryTag":
		return "BinaryTag"
	case "VarIntN":
		return "VarInt"
	}
	return s
}

// versionNumbers: protocol numbers of the version constants, read off the version package's initialiser.
func (e *Engine) versionNumbers() map[string]int64 {
	if e.verNums != nil {
		return e.verNums
	}
	e.verNums = map[string]int64{}
	sp := e.SSAPkgs[e.ModulePath+"/pkg/edition/java/proto/version"]
	if sp == nil {
		return e.verNums
	}
	for _, b := range sp.Func("init").Blocks {
		for _, in := range b.Instrs {
			st, ok := in.(*ssa.Store)
			if !ok {
				continue
			}
			g, ok := st.Addr.(*ssa.Global)
			if !ok {
				continue
			}
			call, ok := st.Val.(*ssa.Call)
			if !ok || len(call.Call.Args) == 0 {
				continue
			}
			if c, ok := call.Call.Args[0].(*ssa.Const); ok && c.Value != nil && c.Value.Kind() == constant.Int {
				if n, exact := constant.Int64Val(c.Value); exact {
					e.verNums[g.Name()] = n
				}
			}
		}
	}
	return e.verNums
}

func versionGlobal(v ssa.Value) (string, bool) {
	ld, ok := v.(*ssa.UnOp)
	if !ok || ld.Op != token.MUL {
		return "", false
	}
	if g, ok := ld.X.(*ssa.Global); ok && g.Pkg != nil && strings.HasSuffix(g.Pkg.Pkg.Path(), "/proto/version") {
		return g.Name(), true
	}
	return "", false
}

// versionProtocolField: version.X.Protocol
func versionProtocolField(v ssa.Value) (string, bool) {
	ld, ok := v.(*ssa.UnOp)
	if !ok || ld.Op != token.MUL {
		return "", false
	}
	fa, ok := ld.X.(*ssa.FieldAddr)
	if !ok {
		return "", false
	}
	return versionGlobal(fa.X)
}

func isProtocolType(t types.Type) bool {
	n, ok := unalias(t).(*types.Named)
	return ok && n.Obj().Name() == "Protocol" && n.Obj().Pkg() != nil && strings.HasSuffix(n.Obj().Pkg().Path(), "/proto")
}

// versionGate recognises protocol comparisons against a version constant; op is one of >= > <= < == !=.
func versionGate(v ssa.Value) (name, op string, neg, ok bool) {
	for {
		if u, isU := v.(*ssa.UnOp); isU && u.Op == token.NOT {
			neg = !neg
			v = u.X
			continue
		}
		break
	}
	switch x := v.(type) {
	case *ssa.Call:
		f, isFn := x.Call.Value.(*ssa.Function)
		if !isFn || len(x.Call.Args) != 2 || f.Signature.Recv() == nil || !isProtocolType(f.Signature.Recv().Type()) {
			return
		}
		switch f.Name() {
		case "GreaterEqual":
			op = ">="
		case "Greater":
			op = ">"
		case "LowerEqual":
			op = "<="
		case "Lower":
			op = "<"
		default:
			return
		}
		g, isG := versionGlobal(x.Call.Args[1])
		if !isG {
			return "", "", false, false
		}
		return g, op, neg, true
	case *ssa.BinOp:
		flip := map[string]string{">=": "<=", ">": "<", "<=": ">=", "<": ">", "==": "==", "!=": "!="}
		o := x.Op.String()
		if _, known := flip[o]; !known {
			return
		}
		if g, isG := versionProtocolField(x.Y); isG && isProtocolType(x.X.Type()) {
			return g, o, neg, true
		}
		if g, isG := versionProtocolField(x.X); isG && isProtocolType(x.Y.Type()) {
			return g, flip[o], neg, true
		}
	}
	return
}

func gateHolds(op string, p, n int64) bool {
	switch op {
	case ">=":
		return p >= n
	case ">":
		return p > n
	case "<=":
		return p <= n
	case "<":
		return p < n
	case "==":
		return p == n
	}
	return p != n
}

func returnsError(r *ssa.Return) bool {
	if len(r.Results) == 0 {
		return false
	}
	last := r.Results[len(r.Results)-1]
	if !isErrorType(last.Type()) {
		return false
	}
	switch x := last.(type) {
	case *ssa.Const:
		return !x.IsNil()
	case *ssa.Call:
		if f, ok := x.Call.Value.(*ssa.Function); ok {
			k := FuncKey(f)
			return k == "fmt.Errorf" || k == "errors.New" || strings.HasSuffix(k, "errs.NewSilentErr")
		}
	case *ssa.MakeInterface:
		return true
	case *ssa.UnOp:
		if _, isG := x.X.(*ssa.Global); isG && x.Op == token.MUL {
			return true // a package-level error value
		}
	}
	return false
}

// isErrTest: +1 for `err != nil`, -1 for `err == nil`, 0 otherwise.
func isErrTest(v ssa.Value) int {
	b, ok := v.(*ssa.BinOp)
	if !ok || (b.Op != token.NEQ && b.Op != token.EQL) {
		return 0
	}
	isNil := func(x ssa.Value) bool { c, ok := x.(*ssa.Const); return ok && c.IsNil() }
	var other ssa.Value
	switch {
	case isNil(b.Y):
		other = b.X
	case isNil(b.X):
		other = b.Y
	default:
		return 0
	}
	if !isErrorType(other.Type()) {
		return 0
	}
	if b.Op == token.NEQ {
		return 1
	}
	return -1
}

type cpLoops struct {
	back     map[[2]int]bool // (from,to) block indices of back edges
	tokenful map[int]bool    // loop headers whose loop moves the stream
}

func (c *cpCtx) loopsOf(fn *ssa.Function) *cpLoops {
	l := &cpLoops{back: map[[2]int]bool{}, tokenful: map[int]bool{}}
	for _, b := range fn.Blocks {
		for _, s := range b.Succs {
			if !s.Dominates(b) {
				continue
			}
			l.back[[2]int{b.Index, s.Index}] = true
			// natural loop of the back edge b -> s
			in := map[*ssa.BasicBlock]bool{s: true}
			var stack []*ssa.BasicBlock
			if !in[b] {
				in[b] = true
				stack = append(stack, b)
			}
			for len(stack) > 0 {
				x := stack[len(stack)-1]
				stack = stack[:len(stack)-1]
				for _, p := range x.Preds {
					if !in[p] {
						in[p] = true
						stack = append(stack, p)
					}
				}
			}
			for blk := range in {
				for _, ins := range blk.Instrs {
					if cc := callCommonOf(ins); cc != nil {
						if k, _, _ := c.e.cpClassify(cc); k != "" {
							l.tokenful[s.Index] = true
						}
					}
				}
			}
		}
	}
	return l
}

// seqs: the token sequences of the success paths of fn at protocol c.p.
func (c *cpCtx) seqs(fn *ssa.Function) []string {
	if r, ok := c.memo[fn]; ok {
		return r
	}
	if c.active[fn] {
		c.fail = "recursive helper " + shortKey(FuncKey(fn))
		return nil
	}
	c.active[fn] = true
	defer delete(c.active, fn)
	loops := c.loopsOf(fn)
	nums := c.e.versionNumbers()
	set := map[string]bool{}
	type frame struct {
		toks []string
		used map[[2]int]bool
	}
	var walk func(b *ssa.BasicBlock, toks []string, used map[[2]int]bool)
	walk = func(b *ssa.BasicBlock, toks []string, used map[[2]int]bool) {
		if c.fail != "" {
			return
		}
		c.steps++
		if c.steps > cpMaxSteps {
			c.fail = "too many paths"
			return
		}
		cur := [][]string{toks}
		for _, in := range b.Instrs {
			if _, isPanic := in.(*ssa.Panic); isPanic {
				return
			}
			if _, isGo := in.(*ssa.Go); isGo {
				c.fail = "go statement"
				return
			}
			cc := callCommonOf(in)
			if cc == nil {
				continue
			}
			kind, tok, callee := c.e.cpClassify(cc)
			switch kind {
			case "out":
				c.fail = tok + " in " + shortKey(FuncKey(fn))
				return
			case "tok":
				tok = tok + ":" + cpTokenLabel(fn, in, cc)
				for i := range cur {
					cur[i] = append(append([]string{}, cur[i]...), tok)
				}
			case "inline":
				sub := c.seqs(callee)
				if c.fail != "" {
					return
				}
				sub = cpSubstitute(sub, fn, in, cc)
				var next [][]string
				for _, p := range cur {
					for _, q := range sub {
						n := append([]string{}, p...)
						if q != "" {
							n = append(n, q)
						}
						next = append(next, n)
					}
				}
				if len(next) > cpMaxSeqs {
					c.fail = "too many paths"
					return
				}
				cur = dedupSeqs(next)
			}
		}
		goTo := func(s *ssa.BasicBlock, p []string) {
			edge := [2]int{b.Index, s.Index}
			u := used
			if loops.back[edge] {
				edge = [2]int{-1, s.Index} // one iteration per loop header, whichever latch closes it
				if used[edge] {
					return // a second iteration adds nothing: gates do not change between iterations
				}
				u = map[[2]int]bool{edge: true}
				for k := range used {
					u[k] = true
				}
				if loops.tokenful[s.Index] {
					p = append(append([]string{}, p...), "*:")
				}
			} else if loops.tokenful[s.Index] {
				p = append(append([]string{}, p...), "{:")
			}
			walk(s, p, u)
		}
		switch t := b.Instrs[len(b.Instrs)-1].(type) {
		case *ssa.Return:
			if returnsError(t) {
				return
			}
			for _, p := range cur {
				set[strings.Join(p, " ")] = true
			}
			if len(set) > cpMaxSeqs {
				c.fail = "too many paths"
			}
		case *ssa.Jump:
			for _, p := range cur {
				goTo(b.Succs[0], p)
			}
		case *ssa.If:
			gate, op, neg, isGate := versionGate(t.Cond)
			errT := isErrTest(t.Cond)
			for _, p := range cur {
				switch {
				case isGate:
					n, known := nums[gate]
					if !known {
						c.fail = "unknown version constant " + gate
						return
					}
					if gateHolds(op, c.p, n) != neg {
						goTo(b.Succs[0], p)
					} else {
						goTo(b.Succs[1], p)
					}
				case errT > 0:
					goTo(b.Succs[1], p)
				case errT < 0:
					goTo(b.Succs[0], p)
				default:
					goTo(b.Succs[0], p)
					goTo(b.Succs[1], p)
				}
			}
		}
	}
	walk(fn.Blocks[0], nil, map[[2]int]bool{})
	var out []string
	for k := range set {
		out = append(out, k)
	}
	sort.Strings(out)
	c.memo[fn] = out
	return out
}

func dedupSeqs(in [][]string) [][]string {
	seen := map[string]bool{}
	var out [][]string
	for _, p := range in {
		k := strings.Join(p, " ")
		if !seen[k] {
			seen[k] = true
			out = append(out, p)
		}
	}
	return out
}

// cpGates: the version constants compared against in fn and everything it inlines.
func (e *Engine) cpGates(fn *ssa.Function, seen map[*ssa.Function]bool, out map[string]bool) {
	if seen[fn] {
		return
	}
	seen[fn] = true
	for _, b := range fn.Blocks {
		for _, in := range b.Instrs {
			if v, ok := in.(ssa.Value); ok {
				if g, _, _, isGate := versionGate(v); isGate {
					out[g] = true
				}
			}
			if cc := callCommonOf(in); cc != nil {
				if k, _, callee := e.cpClassify(cc); k == "inline" {
					e.cpGates(callee, seen, out)
				}
			}
		}
	}
}

// CodecPairObligations: one structural obligation per packet type below the declared prefixes.
func (e *Engine) CodecPairObligations(prop string) []*Obligation {
	var out []*Obligation
	for _, cp := range e.CodecPairs {
		use := false
		for _, p := range cp.Props {
			use = use || p == prop
		}
		if !use {
			continue
		}
		type pair struct{ enc, dec *ssa.Function }
		pairs := map[string]*pair{}
		for _, t := range e.moduleTypes {
			n, ok := t.(*types.Named)
			if !ok || n.Obj().Pkg() == nil || !strings.HasPrefix(n.Obj().Pkg().Path(), cp.PkgPrefix) || n.TypeParams().Len() > 0 {
				continue
			}
			ms := e.Prog.MethodSets.MethodSet(types.NewPointer(n))
			pr := &pair{}
			for _, mn := range []string{"Encode", "Decode"} {
				sel := ms.Lookup(n.Obj().Pkg(), mn)
				if sel == nil {
					continue
				}
				f := e.Prog.MethodValue(sel)
				if f == nil || f.Signature.Params().Len() != 2 || f.Synthetic != "" || f.Blocks == nil {
					continue
				}
				if mn == "Encode" {
					pr.enc = f
				} else {
					pr.dec = f
				}
			}
			if pr.enc != nil && pr.dec != nil {
				pairs[n.Obj().Pkg().Name()+"."+n.Obj().Name()] = pr
			}
		}
		var names []string
		for k := range pairs {
			names = append(names, k)
		}
		sort.Strings(names)
		for _, name := range names {
			pr := pairs[name]
			ok, detail := e.checkCodecPair(pr.enc, pr.dec)
			if os.Getenv("VERIF_CP_DEBUG") != "" {
				fmt.Fprintf(os.Stderr, "codec-pair %s: %v %s\n", name, ok, detail)
			}
			out = append(out, &Obligation{Name: "codec-pair@" + name, Kind: "structural", Func: "codec-pair", Structural: true, StructOK: ok,
				SC: NewScript(), Pos: e.Fset.Position(pr.enc.Pos()).String(), Desc: "Encode and Decode of " + name + " write / read the same token sequences at every protocol number: " + detail})
		}
	}
	return out
}

func (e *Engine) checkCodecPair(enc, dec *ssa.Function) (bool, string) {
	gates := map[string]bool{}
	e.cpGates(enc, map[*ssa.Function]bool{}, gates)
	e.cpGates(dec, map[*ssa.Function]bool{}, gates)
	nums := e.versionNumbers()
	pts := map[int64]bool{}
	for g := range gates {
		n, ok := nums[g]
		if !ok {
			return false, "unknown version constant " + g
		}
		pts[n-1], pts[n], pts[n+1] = true, true, true
	}
	if len(pts) == 0 {
		pts[0] = true
	}
	var ps []int64
	for p := range pts {
		ps = append(ps, p)
	}
	sort.Slice(ps, func(i, j int) bool { return ps[i] < ps[j] })
	nseq := 0
	for _, p := range ps {
		ce := &cpCtx{e: e, p: p, active: map[*ssa.Function]bool{}, memo: map[*ssa.Function][]string{}}
		a := ce.seqs(enc)
		if ce.fail != "" {
			return false, "outside the fragment (encoder): " + ce.fail
		}
		cd := &cpCtx{e: e, p: p, active: map[*ssa.Function]bool{}, memo: map[*ssa.Function][]string{}}
		b := cd.seqs(dec)
		if cd.fail != "" {
			return false, "outside the fragment (decoder): " + cd.fail
		}
		if len(a) == 0 {
			return false, fmt.Sprintf("at protocol %d: the encoder has no success path (vacuous)", p)
		}
		ka, kb := make([]string, len(a)), make([]string, len(b))
		for i := range a {
			ka[i] = cpKinds(a[i])
		}
		for i := range b {
			kb[i] = cpKinds(b[i])
		}
		if d := diffSets(ka, kb); d != "" {
			return false, fmt.Sprintf("at protocol %d: %s", p, d)
		}
		if d := cpLabelDiff(a, b); d != "" {
			return false, fmt.Sprintf("at protocol %d: %s", p, d)
		}
		nseq += len(a)
		if os.Getenv("VERIF_CP_DEBUG") == "2" {
			fmt.Fprintf(os.Stderr, "  p=%d enc=%v\n        dec=%v\n", p, a, b)
		}
	}
	return true, fmt.Sprintf("%d protocol points, %d token sequences compared", len(ps), nseq)
}

func diffSets(a, b []string) string {
	ma, mb := map[string]bool{}, map[string]bool{}
	for _, k := range a {
		ma[k] = true
	}
	for _, k := range b {
		mb[k] = true
	}
	var onlyA, onlyB []string
	for k := range ma {
		if !mb[k] {
			onlyA = append(onlyA, "["+k+"]")
		}
	}
	for k := range mb {
		if !ma[k] {
			onlyB = append(onlyB, "["+k+"]")
		}
	}
	if len(onlyA) == 0 && len(onlyB) == 0 {
		return ""
	}
	sort.Strings(onlyA)
	sort.Strings(onlyB)
	if len(onlyA) > 4 {
		onlyA = append(onlyA[:4], "...")
	}
	if len(onlyB) > 4 {
		onlyB = append(onlyB[:4], "...")
	}
	return "encoder only " + strings.Join(onlyA, ",") + " decoder only " + strings.Join(onlyB, ",")
}

// ---- field labels: which packet field a token carries -------------------------------------------------------------
// A token is "Kind:label". The label names the struct field whose value is written, or into which the value read is
// stored ("?" when it is a computed value or a local). "$k" stands for the k-th parameter of the function under
// expansion and "$ret" for its first result; both are substituted at the call site when the function is inlined.

var cpVarRe = regexp.MustCompile(`\$(\d+|ret)`)

func paramIndex(fn *ssa.Function, p *ssa.Parameter) int {
	for i, q := range fn.Params {
		if q == p {
			return i
		}
	}
	return -1
}

func cpLabelOf(fn *ssa.Function, v ssa.Value, depth int) string {
	if depth > 6 {
		return "?"
	}
	switch x := v.(type) {
	case *ssa.FieldAddr:
		st, ok := unalias(derefType(x.X.Type())).Underlying().(*types.Struct)
		if ok && x.Field < st.NumFields() {
			return st.Field(x.Field).Name()
		}
	case *ssa.Field:
		st, ok := unalias(x.X.Type()).Underlying().(*types.Struct)
		if ok && x.Field < st.NumFields() {
			return st.Field(x.Field).Name()
		}
	case *ssa.UnOp:
		if x.Op == token.MUL {
			return cpLabelOf(fn, x.X, depth+1)
		}
	case *ssa.Parameter:
		if i := paramIndex(fn, x); i >= 0 {
			return fmt.Sprintf("$%d", i)
		}
	case *ssa.Convert:
		return cpLabelOf(fn, x.X, depth+1)
	case *ssa.ChangeType:
		return cpLabelOf(fn, x.X, depth+1)
	case *ssa.MakeInterface:
		return cpLabelOf(fn, x.X, depth+1)
	case *ssa.IndexAddr:
		if l := cpLabelOf(fn, x.X, depth+1); l != "?" {
			return l + "[]"
		}
	case *ssa.Index:
		if l := cpLabelOf(fn, x.X, depth+1); l != "?" {
			return l + "[]"
		}
	case *ssa.Call:
		if b, ok := x.Call.Value.(*ssa.Builtin); ok && b.Name() == "len" && len(x.Call.Args) == 1 {
			if l := cpLabelOf(fn, x.Call.Args[0], depth+1); l != "?" {
				return "len(" + l + ")"
			}
		}
	}
	return "?"
}

// cpFlowLabel: where the (first) result of a call ends up.
func cpFlowLabel(fn *ssa.Function, call ssa.Value) string {
	seen := map[ssa.Value]bool{}
	work := []ssa.Value{call}
	for len(work) > 0 && len(seen) < 40 {
		v := work[0]
		work = work[1:]
		if seen[v] {
			continue
		}
		seen[v] = true
		refs := v.Referrers()
		if refs == nil {
			continue
		}
		for _, r := range *refs {
			switch x := r.(type) {
			case *ssa.Extract:
				if x.Index == 0 {
					work = append(work, x)
				}
			case *ssa.Convert:
				work = append(work, x)
			case *ssa.ChangeType:
				work = append(work, x)
			case *ssa.MakeInterface:
				work = append(work, x)
			case *ssa.Phi:
				work = append(work, x)
			case *ssa.Store:
				if x.Val == v {
					if l := cpLabelOf(fn, x.Addr, 0); l != "?" {
						return l
					}
				}
			case *ssa.Return:
				if len(x.Results) > 0 && x.Results[0] == v {
					return "$ret"
				}
			case *ssa.Call:
				// a pure conversion of the value (time.UnixMilli(v), key parsing, ...): follow its result
				if f, ok := x.Call.Value.(*ssa.Function); ok && !callHasStream(&x.Call) && f.Signature.Results().Len() >= 1 {
					work = append(work, x)
				}
			}
		}
	}
	return "?"
}

// cpTokenLabel: the label of a token call: the data argument written, else where the value read goes.
func cpTokenLabel(fn *ssa.Function, in ssa.Instruction, c *ssa.CallCommon) string {
	args := c.Args
	if !c.IsInvoke() {
		if f, ok := c.Value.(*ssa.Function); ok && f.Signature.Recv() != nil && len(args) > 0 {
			args = args[1:]
		}
	}
	for _, a := range args {
		if streamTyped(a.Type()) || isProtocolType(a.Type()) {
			continue
		}
		if l := cpLabelOf(fn, a, 0); l != "?" {
			return l
		}
		break
	}
	if c.IsInvoke() && !streamTyped(c.Value.Type()) {
		if l := cpLabelOf(fn, c.Value, 0); l != "?" {
			return l
		}
	}
	if v, ok := in.(ssa.Value); ok {
		t := v.Type()
		if tup, isTup := t.(*types.Tuple); isTup && tup.Len() > 0 {
			t = tup.At(0).Type()
		}
		if !isErrorType(t) {
			return cpFlowLabel(fn, v)
		}
	}
	return "?"
}

// cpSubstitute: rewrites the $k / $ret labels of an inlined callee's sequences in terms of the caller.
func cpSubstitute(sub []string, fn *ssa.Function, in ssa.Instruction, c *ssa.CallCommon) []string {
	need := false
	for _, q := range sub {
		if strings.Contains(q, "$") {
			need = true
			break
		}
	}
	if !need {
		return sub
	}
	cache := map[string]string{}
	repl := func(m string) string {
		if r, ok := cache[m]; ok {
			return r
		}
		r := "?"
		if m == "$ret" {
			if v, ok := in.(ssa.Value); ok {
				r = cpFlowLabel(fn, v)
			}
		} else {
			k := 0
			fmt.Sscanf(m[1:], "%d", &k)
			if k < len(c.Args) {
				r = cpLabelOf(fn, c.Args[k], 0)
			}
		}
		cache[m] = r
		return r
	}
	out := make([]string, 0, len(sub))
	seen := map[string]bool{}
	for _, q := range sub {
		toks := strings.Split(q, " ")
		for i, t := range toks {
			if !strings.Contains(t, "$") {
				continue
			}
			kind, lbl, _ := strings.Cut(t, ":")
			lbl = cpVarRe.ReplaceAllStringFunc(lbl, repl)
			if strings.Contains(lbl, "?") {
				lbl = "?"
			}
			toks[i] = kind + ":" + lbl
		}
		n := strings.Join(toks, " ")
		if !seen[n] {
			seen[n] = true
			out = append(out, n)
		}
	}
	return out
}

func cpKinds(seq string) string {
	if seq == "" {
		return ""
	}
	toks := strings.Split(seq, " ")
	for i, t := range toks {
		toks[i], _, _ = strings.Cut(t, ":")
	}
	return strings.Join(toks, " ")
}

// cpLabelsCompatible: two sequences of the same kinds carry the same fields (a "?" or $-label matches anything).
func cpLabelsCompatible(a, b string) bool {
	ta, tb := strings.Split(a, " "), strings.Split(b, " ")
	if len(ta) != len(tb) {
		return false
	}
	for i := range ta {
		_, la, _ := strings.Cut(ta[i], ":")
		_, lb, _ := strings.Cut(tb[i], ":")
		if la == lb || la == "" || lb == "" || strings.ContainsAny(la, "?$") || strings.ContainsAny(lb, "?$") {
			continue
		}
		return false
	}
	return true
}

// cpLabelDiff: every encoder sequence needs a decoder sequence of the same kinds with compatible labels, and back.
func cpLabelDiff(a, b []string) string {
	group := func(x []string) map[string][]string {
		m := map[string][]string{}
		for _, s := range x {
			m[cpKinds(s)] = append(m[cpKinds(s)], s)
		}
		return m
	}
	ga, gb := group(a), group(b)
	check := func(x, y map[string][]string, who string) string {
		var ks []string
		for k := range x {
			ks = append(ks, k)
		}
		sort.Strings(ks)
		for _, k := range ks {
			for _, s := range x[k] {
				ok := false
				for _, t := range y[k] {
					if cpLabelsCompatible(s, t) {
						ok = true
						break
					}
				}
				if !ok {
					other := ""
					if len(y[k]) > 0 {
						other = y[k][0]
					}
					return fmt.Sprintf("%s sequence [%s] carries other fields than [%s]", who, s, other)
				}
			}
		}
		return ""
	}
	if d := check(ga, gb, "encoder"); d != "" {
		return d
	}
	return check(gb, ga, "decoder")
}
