package vc

import (
	"fmt"
	"go/constant"
	"regexp/syntax"
	"strings"

	"golang.org/x/tools/go/ssa"
)

// RegexDecl: "//@ regexlang <global> == "<regex>" ; props Cxx" — the language accepted by MatchString on the compiled
// constant pattern stored in <global> equals the language of the (implicitly anchored) specification regex.
type RegexDecl struct {
	Global string
	Spec   string
	Props  []string
	Pkg    string
	File   string
	Line   int
}

func smtStrLit(s string) string {
	var sb strings.Builder
	sb.WriteByte('"')
	for _, r := range s {
		switch {
		case r == '"':
			sb.WriteString("\"\"")
		case r >= 0x20 && r < 0x7f && r != '\\':
			sb.WriteRune(r)
		default:
			fmt.Fprintf(&sb, "\\u{%x}", r)
		}
	}
	sb.WriteByte('"')
	return sb.String()
}

// reToSMT translates a parsed regex into an SMT-LIB RegLan term (language of whole-string matches of this node).
func reToSMT(re *syntax.Regexp) (string, error) {
	switch re.Op {
	case syntax.OpLiteral:
		if re.Flags&syntax.FoldCase != 0 {
			return "", fmt.Errorf("case folding not supported")
		}
		return "(str.to_re " + smtStrLit(string(re.Rune)) + ")", nil
	case syntax.OpCharClass:
		var parts []string
		for i := 0; i+1 < len(re.Rune); i += 2 {
			lo, hi := re.Rune[i], re.Rune[i+1]
			if hi > 0x2FFFF {
				hi = 0x2FFFF
			}
			if lo == hi {
				parts = append(parts, "(str.to_re "+smtStrLit(string(lo))+")")
			} else {
				parts = append(parts, "(re.range "+smtStrLit(string(lo))+" "+smtStrLit(string(hi))+")")
			}
		}
		if len(parts) == 0 {
			return "re.none", nil
		}
		if len(parts) == 1 {
			return parts[0], nil
		}
		return "(re.union " + strings.Join(parts, " ") + ")", nil
	case syntax.OpAnyChar:
		return "re.allchar", nil
	case syntax.OpAnyCharNotNL:
		return "(re.diff re.allchar (str.to_re \"\\u{a}\"))", nil
	case syntax.OpEmptyMatch:
		return "(str.to_re \"\")", nil
	case syntax.OpCapture:
		return reToSMT(re.Sub[0])
	case syntax.OpStar, syntax.OpPlus, syntax.OpQuest:
		s, err := reToSMT(re.Sub[0])
		if err != nil {
			return "", err
		}
		op := map[syntax.Op]string{syntax.OpStar: "re.*", syntax.OpPlus: "re.+", syntax.OpQuest: "re.opt"}[re.Op]
		return "(" + op + " " + s + ")", nil
	case syntax.OpRepeat:
		s, err := reToSMT(re.Sub[0])
		if err != nil {
			return "", err
		}
		if re.Max < 0 {
			return fmt.Sprintf("(re.++ ((_ re.^ %d) %s) (re.* %s))", re.Min, s, s), nil
		}
		return fmt.Sprintf("((_ re.loop %d %d) %s)", re.Min, re.Max, s), nil
	case syntax.OpConcat, syntax.OpAlternate:
		var parts []string
		for _, sub := range re.Sub {
			s, err := reToSMT(sub)
			if err != nil {
				return "", err
			}
			parts = append(parts, s)
		}
		op := "re.++"
		if re.Op == syntax.OpAlternate {
			op = "re.union"
		}
		return "(" + op + " " + strings.Join(parts, " ") + ")", nil
	}
	return "", fmt.Errorf("regex operator %v not supported", re.Op)
}

// matchLang: the set of whole strings s for which MatchString(pattern, s) is true (unanchored ends match anything).
func matchLang(pattern string, implicitAnchors bool) (string, error) {
	re, err := syntax.Parse(pattern, syntax.Perl)
	if err != nil {
		return "", err
	}
	re = re.Simplify()
	subs := []*syntax.Regexp{re}
	if re.Op == syntax.OpConcat {
		subs = re.Sub
	}
	begin, end := implicitAnchors, implicitAnchors
	if len(subs) > 0 && subs[0].Op == syntax.OpBeginText {
		begin = true
		subs = subs[1:]
	}
	if len(subs) > 0 && subs[len(subs)-1].Op == syntax.OpEndText {
		end = true
		subs = subs[:len(subs)-1]
	}
	var parts []string
	if !begin {
		parts = append(parts, "re.all")
	}
	for _, s := range subs {
		t, err := reToSMT(s)
		if err != nil {
			return "", err
		}
		parts = append(parts, t)
	}
	if !end {
		parts = append(parts, "re.all")
	}
	if len(parts) == 0 {
		return "(str.to_re \"\")", nil
	}
	if len(parts) == 1 {
		return parts[0], nil
	}
	return "(re.++ " + strings.Join(parts, " ") + ")", nil
}

// compiledPattern finds the constant pattern that the package initialiser compiles into the global.
func (e *Engine) compiledPattern(pkgPath, global string) (string, error) {
	sp := e.SSAPkgs[pkgPath]
	if sp == nil {
		return "", fmt.Errorf("package %s not loaded", pkgPath)
	}
	g, ok := sp.Members[global].(*ssa.Global)
	if !ok {
		return "", fmt.Errorf("no global %s", global)
	}
	init := sp.Func("init")
	var found []string
	for _, b := range init.Blocks {
		for _, in := range b.Instrs {
			st, ok := in.(*ssa.Store)
			if !ok || st.Addr != ssa.Value(g) {
				continue
			}
			call, ok := st.Val.(*ssa.Call)
			if !ok {
				return "", fmt.Errorf("%s is not initialised by a direct regexp.MustCompile call", global)
			}
			fn, ok := call.Call.Value.(*ssa.Function)
			if !ok || (FuncKey(fn) != "regexp.MustCompile" && FuncKey(fn) != "regexp.Compile") || len(call.Call.Args) != 1 {
				return "", fmt.Errorf("%s is not initialised by regexp.MustCompile", global)
			}
			c, ok := call.Call.Args[0].(*ssa.Const)
			if !ok || c.Value == nil || c.Value.Kind() != constant.String {
				return "", fmt.Errorf("%s: pattern is not a constant", global)
			}
			found = append(found, constant.StringVal(c.Value))
		}
	}
	if len(found) != 1 {
		return "", fmt.Errorf("%s: expected exactly one initialising store, found %d", global, len(found))
	}
	// no other function may assign the global
	for fn := range e.allFuncs() {
		if fn == init || fn.Blocks == nil {
			continue
		}
		for _, b := range fn.Blocks {
			for _, in := range b.Instrs {
				if st, ok := in.(*ssa.Store); ok && st.Addr == ssa.Value(g) {
					return "", fmt.Errorf("%s is reassigned in %s", global, FuncKey(fn))
				}
			}
		}
	}
	return found[0], nil
}

// RegexObligations builds the language-equality obligations of a property.
func (e *Engine) RegexObligations(prop string) []*Obligation {
	var out []*Obligation
	for _, rd := range e.Regexes {
		use := false
		for _, p := range rd.Props {
			if p == prop {
				use = true
			}
		}
		if !use {
			continue
		}
		name := "regexlang/" + rd.Global
		fail := func(err error) {
			out = append(out, &Obligation{Name: name, Kind: "regexlang", Func: "regexlang", Structural: true, StructOK: false, SC: NewScript(),
				Desc: fmt.Sprintf("language of %s == /%s/: %v", rd.Global, rd.Spec, err), Pos: fmt.Sprintf("%s:%d", rd.File, rd.Line)})
		}
		pat, err := e.compiledPattern(rd.Pkg, rd.Global)
		if err != nil {
			fail(err)
			continue
		}
		code, err := matchLang(pat, false)
		if err != nil {
			fail(err)
			continue
		}
		specL, err := matchLang(rd.Spec, true)
		if err != nil {
			fail(err)
			continue
		}
		sc := NewScript()
		sc.Raw("(declare-const s String)")
		o := &Obligation{Name: name, Kind: "regexlang", Func: "regexlang", SC: sc, Prefix: sc.Mark(), Reach: boolLit(true),
			Goal: Term{fmt.Sprintf("(= (str.in_re s %s) (str.in_re s %s))", code, specL), SBool},
			Desc: fmt.Sprintf("strings accepted by %s.MatchString (pattern %q, RE2 semantics) == language of /%s/", rd.Global, pat, rd.Spec),
			Pos:  fmt.Sprintf("%s:%d", rd.File, rd.Line)}
		out = append(out, o)
	}
	return out
}
