package vc

import (
	"fmt"
	"go/types"
	"strings"

	"golang.org/x/tools/go/types/typeutil"
)

// TypeEnv maps Go types to SMT sorts inside one Script.
type TypeEnv struct {
	sc      *Script
	structs typeutil.Map // *types.Struct (by identity of named/underlying) -> *structInfo
	byName  map[string]*structInfo
	typeIDs map[string]int
	anon    int
}

type structInfo struct {
	Name   string // SMT datatype name, also used in heap component names
	St     *types.Struct
	Fields []string // SMT sorts of fields
	Declared bool
}

func NewTypeEnv(sc *Script) *TypeEnv {
	return &TypeEnv{sc: sc, byName: map[string]*structInfo{}, typeIDs: map[string]int{}}
}

func unalias(t types.Type) types.Type { return types.Unalias(t) }

// structName gives a stable name for a struct type (named or anonymous).
func (te *TypeEnv) structName(t types.Type) string {
	t = unalias(t)
	if n, ok := t.(*types.Named); ok {
		s := n.Obj().Name()
		if n.Obj().Pkg() != nil {
			s = n.Obj().Pkg().Path() + "." + s
		}
		if ta := n.TypeArgs(); ta != nil && ta.Len() > 0 {
			var as []string
			allParams := true
			for i := 0; i < ta.Len(); i++ {
				as = append(as, shortType(ta.At(i)))
				if tp, ok := ta.At(i).(*types.TypeParam); !ok || tp.Index() != i {
					allParams = false
				}
			}
			// inside a generic body the receiver type is the generic type applied to its own parameters: same name as the origin
			if !allParams {
				s += "[" + strings.Join(as, ",") + "]"
			}
		}
		return sanitize(s)
	}
	return ""
}

func shortType(t types.Type) string {
	return types.TypeString(t, func(p *types.Package) string { return p.Name() })
}

// StructInfo returns (declaring on demand) the datatype for struct type t (named or not).
func (te *TypeEnv) StructInfo(t types.Type) *structInfo {
	t = unalias(t)
	st, ok := t.Underlying().(*types.Struct)
	if !ok {
		panic("StructInfo of non-struct " + t.String())
	}
	name := te.structName(t)
	if name == "" {
		if v := te.structs.At(st); v != nil {
			return v.(*structInfo)
		}
		te.anon++
		name = fmt.Sprintf("anon%d", te.anon)
		si := &structInfo{Name: name, St: st}
		te.structs.Set(st, si)
		return si
	}
	if si, ok := te.byName[name]; ok {
		return si
	}
	si := &structInfo{Name: name, St: st}
	te.byName[name] = si
	return si
}

// declareStruct emits the datatype declaration for by-value use.
func (te *TypeEnv) declareStruct(si *structInfo) {
	if si.Declared {
		return
	}
	si.Declared = true
	var fs []string
	for i := 0; i < si.St.NumFields(); i++ {
		fs = append(fs, te.Sort(si.St.Field(i).Type()))
	}
	si.Fields = fs
	var sb strings.Builder
	fmt.Fprintf(&sb, "(declare-datatypes ((S_%s 0)) (((mk_%s", si.Name, si.Name)
	for i, f := range fs {
		fmt.Fprintf(&sb, " (f%d_%s %s)", i, si.Name, f)
	}
	sb.WriteString("))))")
	if len(fs) == 0 {
		te.sc.Raw(fmt.Sprintf("(declare-datatypes ((S_%s 0)) (((mk_%s))))", si.Name, si.Name))
		return
	}
	te.sc.Raw(sb.String())
}

// Sort returns the SMT sort for a Go type.
// wideTypes are synthetic spec-only bit-vector types bvN.
var wideTypes = map[int]types.Type{}

func WideBV(n int) types.Type {
	if t, ok := wideTypes[n]; ok {
		return t
	}
	t := types.NewNamed(types.NewTypeName(0, nil, fmt.Sprintf("bv%d", n), nil), types.Typ[types.Uint64], nil)
	wideTypes[n] = t
	return t
}

func wideWidth(t types.Type) int {
	if n, ok := t.(*types.Named); ok && n.Obj().Pkg() == nil && strings.HasPrefix(n.Obj().Name(), "bv") {
		w := 0
		fmt.Sscanf(n.Obj().Name()[2:], "%d", &w)
		return w
	}
	return 0
}

func (te *TypeEnv) Sort(t types.Type) string {
	t = unalias(t)
	if w := wideWidth(t); w > 0 {
		return BV(w)
	}
	switch u := t.Underlying().(type) {
	case *types.Basic:
		switch u.Kind() {
		case types.Bool, types.UntypedBool:
			return SBool
		case types.Int8, types.Uint8:
			return BV(8)
		case types.Int16, types.Uint16:
			return BV(16)
		case types.Int32, types.Uint32, types.UntypedRune:
			return BV(32)
		case types.Int, types.Uint, types.Int64, types.Uint64, types.Uintptr, types.UntypedInt:
			return BV(64)
		case types.Float32:
			return BV(32)
		case types.Float64, types.UntypedFloat:
			return BV(64)
		case types.String, types.UntypedString:
			return SStr
		case types.UnsafePointer:
			return SRef
		case types.UntypedNil:
			return SRef
		}
		te.sc.DeclareSort("U_basic")
		return "U_basic"
	case *types.Pointer, *types.Map, *types.Chan, *types.Signature:
		return SRef
	case *types.Slice:
		return SSlice
	case *types.Interface:
		if _, ok := t.(*types.TypeParam); ok {
			n := "TP_" + sanitize(t.String())
			te.sc.DeclareSort(n)
			return n
		}
		return SIface
	case *types.Struct:
		si := te.StructInfo(t)
		te.declareStruct(si)
		return "S_" + si.Name
	case *types.Array:
		return arraySort(BV(64), te.Sort(u.Elem()))
	case *types.Tuple:
		return "TUPLE"
	}
	te.sc.DeclareSort("U_other")
	return "U_other"
}

// SortKey is a short name for a sort used in heap component names.
func sortKey(sort string) string {
	r := strings.NewReplacer("(_ BitVec ", "bv", "(Array ", "arr_", "(", "", ")", "", " ", "_")
	return r.Replace(sort)
}

func isSigned(t types.Type) bool {
	b, ok := unalias(t).Underlying().(*types.Basic)
	if !ok {
		return false
	}
	return b.Info()&types.IsInteger != 0 && b.Info()&types.IsUnsigned == 0
}

func isInteger(t types.Type) bool {
	b, ok := unalias(t).Underlying().(*types.Basic)
	return ok && b.Info()&types.IsInteger != 0
}

func isFloat(t types.Type) bool {
	b, ok := unalias(t).Underlying().(*types.Basic)
	return ok && b.Info()&types.IsFloat != 0
}

func isString(t types.Type) bool {
	b, ok := unalias(t).Underlying().(*types.Basic)
	return ok && b.Info()&types.IsString != 0
}

func isStruct(t types.Type) bool {
	_, ok := unalias(t).Underlying().(*types.Struct)
	return ok
}

func isArray(t types.Type) bool {
	_, ok := unalias(t).Underlying().(*types.Array)
	return ok
}

func isInterface(t types.Type) bool {
	_, ok := unalias(t).Underlying().(*types.Interface)
	return ok
}

// Zero returns the zero value term of a Go type.
func (te *TypeEnv) Zero(t types.Type) Term {
	sort := te.Sort(t)
	return te.zeroOfSort(sort, t)
}

func (te *TypeEnv) zeroOfSort(sort string, t types.Type) Term {
	switch {
	case sort == SBool:
		return boolLit(false)
	case sort == SRef:
		return Term{"0", SRef}
	case sort == SStr:
		return Term{"empty_str", SStr}
	case sort == SSlice:
		return Term{"nil_slice", SSlice}
	case sort == SIface:
		return Term{"nil_iface", SIface}
	case bvWidth(sort) > 0:
		return bvLit(0, bvWidth(sort))
	case strings.HasPrefix(sort, "(Array "):
		_, e := splitArraySort(sort)
		var et types.Type
		if t != nil {
			if a, ok := unalias(t).Underlying().(*types.Array); ok {
				et = a.Elem()
			}
		}
		ez := te.zeroOfSort(e, et)
		// cvc5 wants a literal value (not a defined constant) as the element of a constant array
		lit := strings.NewReplacer(
			"nil_iface", "(mkiface 0 0)",
			"nil_slice", "(mkslice 0 #x0000000000000000 #x0000000000000000 #x0000000000000000)",
			"empty_str", "(mkstr ((as const (Array (_ BitVec 64) (_ BitVec 8))) #x00) #x0000000000000000 #x0000000000000000)",
		).Replace(ez.S)
		return Term{fmt.Sprintf("((as const %s) %s)", sort, lit), sort}
	case strings.HasPrefix(sort, "S_"):
		if t != nil {
			if st, ok := unalias(t).Underlying().(*types.Struct); ok {
				si := te.StructInfo(t)
				te.declareStruct(si)
				if st.NumFields() == 0 {
					return Term{"mk_" + si.Name, sort}
				}
				var args []Term
				for i := 0; i < st.NumFields(); i++ {
					args = append(args, te.Zero(st.Field(i).Type()))
				}
				return app("mk_"+si.Name, sort, args...)
			}
		}
	}
	// opaque sort: a fixed uninterpreted zero constant
	n := "zero_" + sortKey(sort)
	if !te.sc.HasFun(n) {
		te.sc.DeclareFun(n, nil, sort)
	}
	return Term{n, sort}
}

// TypeID gives a stable small integer id for a dynamic type (interface tags).
func (te *TypeEnv) TypeID(t types.Type) int {
	k := unalias(t).String()
	if id, ok := te.typeIDs[k]; ok {
		return id
	}
	id := len(te.typeIDs) + 1
	te.typeIDs[k] = id
	return id
}
