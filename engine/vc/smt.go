// Package vc generates verification conditions from go/ssa functions and //@ contracts.
package vc

import (
	"fmt"
	"regexp"
	"strings"
)

// Term is an SMT-LIB term with its sort.
type Term struct {
	S    string
	Sort string
}

const (
	SBool  = "Bool"
	SRef   = "Int"
	SStr   = "Str"
	SSlice = "Slice"
	SIface = "Iface"
	SInt   = "Int"
)

func BV(n int) string { return fmt.Sprintf("(_ BitVec %d)", n) }

var bvRe = regexp.MustCompile(`^\(_ BitVec (\d+)\)$`)

func bvWidth(sort string) int {
	m := bvRe.FindStringSubmatch(sort)
	if m == nil {
		return 0
	}
	n := 0
	fmt.Sscanf(m[1], "%d", &n)
	return n
}

func arraySort(idx, elem string) string { return "(Array " + idx + " " + elem + ")" }

// Script is a growing SMT-LIB script; obligations snapshot a prefix of it.
type Script struct {
	Lines []string
	names map[string]int
	sorts map[string]bool
	funs  map[string]bool
}

func NewScript() *Script {
	s := &Script{names: map[string]int{}, sorts: map[string]bool{}, funs: map[string]bool{}}
	s.Lines = append(s.Lines,
		"(declare-datatypes ((Str 0)) (((mkstr (sarr (Array (_ BitVec 64) (_ BitVec 8))) (soff (_ BitVec 64)) (slen (_ BitVec 64))))))",
		"(declare-datatypes ((Slice 0)) (((mkslice (lref Int) (loff (_ BitVec 64)) (llen (_ BitVec 64)) (lcap (_ BitVec 64))))))",
		"(declare-datatypes ((Iface 0)) (((mkiface (ityp Int) (iref Int)))))",
		"(define-fun nil_iface () Iface (mkiface 0 0))",
		"(define-fun nil_slice () Slice (mkslice 0 #x0000000000000000 #x0000000000000000 #x0000000000000000))",
		"(define-fun streq ((a Str) (b Str)) Bool (and (= (slen a) (slen b)) (forall ((i (_ BitVec 64))) (=> (bvult i (slen a)) (= (select (sarr a) (bvadd (soff a) i)) (select (sarr b) (bvadd (soff b) i)))))))",
		"(define-fun empty_str () Str (mkstr ((as const (Array (_ BitVec 64) (_ BitVec 8))) #x00) #x0000000000000000 #x0000000000000000))",
	)
	return s
}

var sanRe = regexp.MustCompile(`[^A-Za-z0-9_.$]`)

func sanitize(s string) string { return sanRe.ReplaceAllString(s, "_") }

func (s *Script) Fresh(prefix string) string {
	p := sanitize(prefix)
	n := s.names[p]
	s.names[p] = n + 1
	if n == 0 {
		return p
	}
	return fmt.Sprintf("%s!%d", p, n)
}

func (s *Script) Declare(prefix, sort string) Term {
	n := s.Fresh(prefix)
	s.Lines = append(s.Lines, fmt.Sprintf("(declare-const %s %s)", n, sort))
	return Term{n, sort}
}

// Define introduces a named abbreviation for t (keeps terms small).
func (s *Script) Define(prefix string, t Term) Term {
	if len(t.S) < 24 && !strings.Contains(t.S, " ") {
		return t
	}
	n := s.Fresh(prefix)
	s.Lines = append(s.Lines, fmt.Sprintf("(define-fun %s () %s %s)", n, t.Sort, t.S))
	return Term{n, t.Sort}
}

func (s *Script) Assert(b string) { s.Lines = append(s.Lines, "(assert "+b+")") }
func (s *Script) Raw(l string)    { s.Lines = append(s.Lines, l) }
func (s *Script) Comment(c string) {
	s.Lines = append(s.Lines, "; "+strings.ReplaceAll(c, "\n", " "))
}
func (s *Script) Mark() int { return len(s.Lines) }

// DeclareSort declares an uninterpreted sort once.
func (s *Script) DeclareSort(name string) {
	if !s.sorts[name] {
		s.sorts[name] = true
		s.Lines = append(s.Lines, fmt.Sprintf("(declare-sort %s 0)", name))
	}
}

// DeclareFun declares an uninterpreted function once.
func (s *Script) DeclareFun(name string, args []string, res string) {
	if !s.funs[name] {
		s.funs[name] = true
		s.Lines = append(s.Lines, fmt.Sprintf("(declare-fun %s (%s) %s)", name, strings.Join(args, " "), res))
	}
}

func (s *Script) HasFun(name string) bool { return s.funs[name] }
func (s *Script) MarkFun(name string)     { s.funs[name] = true }

// ---- term helpers ----

func bvLit(v uint64, w int) Term {
	if w%4 == 0 {
		return Term{fmt.Sprintf("#x%0*x", w/4, v&mask(w)), BV(w)}
	}
	return Term{fmt.Sprintf("(_ bv%d %d)", v&mask(w), w), BV(w)}
}

func mask(w int) uint64 {
	if w >= 64 {
		return ^uint64(0)
	}
	return (uint64(1) << uint(w)) - 1
}

func boolLit(b bool) Term {
	if b {
		return Term{"true", SBool}
	}
	return Term{"false", SBool}
}

func app(op string, sort string, args ...Term) Term {
	var sb strings.Builder
	sb.WriteString("(")
	sb.WriteString(op)
	for _, a := range args {
		sb.WriteString(" ")
		sb.WriteString(a.S)
	}
	sb.WriteString(")")
	return Term{sb.String(), sort}
}

func and(ts ...Term) Term {
	var xs []Term
	for _, t := range ts {
		if t.S == "true" {
			continue
		}
		if t.S == "false" {
			return boolLit(false)
		}
		xs = append(xs, t)
	}
	if len(xs) == 0 {
		return boolLit(true)
	}
	if len(xs) == 1 {
		return xs[0]
	}
	return app("and", SBool, xs...)
}

func or(ts ...Term) Term {
	var xs []Term
	for _, t := range ts {
		if t.S == "false" {
			continue
		}
		if t.S == "true" {
			return boolLit(true)
		}
		xs = append(xs, t)
	}
	if len(xs) == 0 {
		return boolLit(false)
	}
	if len(xs) == 1 {
		return xs[0]
	}
	return app("or", SBool, xs...)
}

func not(t Term) Term {
	if t.S == "true" {
		return boolLit(false)
	}
	if t.S == "false" {
		return boolLit(true)
	}
	return app("not", SBool, t)
}

func implies(a, b Term) Term {
	if a.S == "true" {
		return b
	}
	return app("=>", SBool, a, b)
}

func eq(a, b Term) Term { return app("=", SBool, a, b) }

func ite(c, a, b Term) Term {
	if c.S == "true" {
		return a
	}
	if c.S == "false" {
		return b
	}
	if a.S == b.S {
		return a
	}
	return app("ite", a.Sort, c, a, b)
}

func sel(arr, idx Term) Term {
	// (Array I E) -> E
	return app("select", arrayElem(arr.Sort), arr, idx)
}

func store(arr, idx, v Term) Term { return app("store", arr.Sort, arr, idx, v) }

// arrayElem returns the element sort of an "(Array I E)" sort string.
func arrayElem(sort string) string {
	_, e := splitArraySort(sort)
	return e
}

func arrayIdx(sort string) string {
	i, _ := splitArraySort(sort)
	return i
}

func splitArraySort(sort string) (string, string) {
	if !strings.HasPrefix(sort, "(Array ") {
		panic("not an array sort: " + sort)
	}
	body := sort[len("(Array ") : len(sort)-1]
	// first sort token (balanced)
	depth := 0
	for i := 0; i < len(body); i++ {
		switch body[i] {
		case '(':
			depth++
		case ')':
			depth--
		case ' ':
			if depth == 0 {
				return body[:i], body[i+1:]
			}
		}
	}
	panic("bad array sort: " + sort)
}
