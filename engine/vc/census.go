package vc

import (
	"fmt"
	"sort"
	"strings"

	"golang.org/x/tools/go/ssa"
	"golang.org/x/tools/go/ssa/ssautil"
)

// CensusObligations: structural obligations "calls to X appear only inside the listed functions".
func (e *Engine) CensusObligations(prop string) []*Obligation {
	var out []*Obligation
	for _, cs := range e.Census {
		use := false
		for _, p := range cs.Props {
			if p == prop {
				use = true
			}
		}
		if !use {
			continue
		}
		var offenders []string
		found := 0
		for fn := range ssautil.AllFunctions(e.Prog) {
			if !e.inModule(fn) || fn.Blocks == nil {
				continue
			}
			if cs.Pkg != "" && (fn.Pkg == nil && fn.Parent() == nil) {
				continue
			}
			key := shortKey(FuncKey(fn))
			for _, b := range fn.Blocks {
				for _, in := range b.Instrs {
					var c *ssa.CallCommon
					switch x := in.(type) {
					case *ssa.Call:
						c = &x.Call
					case *ssa.Defer:
						c = &x.Call
					case *ssa.Go:
						c = &x.Call
					}
					if c == nil {
						continue
					}
					var display string
					if c.IsInvoke() {
						display = "(" + c.Value.Type().String() + ")." + c.Method.Name()
					} else if sf, ok := c.Value.(*ssa.Function); ok {
						display = FuncKey(sf)
					} else {
						continue
					}
					if !matchCallee(cs.Callee, display) {
						continue
					}
					if cs.Pkg != "" && !strings.HasPrefix(FuncKey(fn), cs.Pkg) && !strings.Contains(FuncKey(fn), cs.Pkg+".") {
						continue
					}
					found++
					ok := false
					for _, allowed := range cs.OnlyIn {
						if strings.HasSuffix(allowed, "!") { // "f!": the function itself, not its closures
							if key == strings.TrimSuffix(allowed, "!") {
								ok = true
							}
							continue
						}
						if key == allowed || strings.HasPrefix(key, allowed+"$") {
							ok = true
						}
					}
					if !ok {
						offenders = append(offenders, key)
					}
				}
			}
		}
		sort.Strings(offenders)
		o := &Obligation{Name: "census/" + cs.Callee, Kind: "census", Func: "census", Structural: true,
			StructOK: len(offenders) == 0 && found > 0, SC: NewScript(),
			Desc: fmt.Sprintf("calls to %s appear only in %v (found %d call sites; offenders: %v)", cs.Callee, cs.OnlyIn, found, offenders),
			Pos:  fmt.Sprintf("%s:%d", cs.File, cs.Line)}
		out = append(out, o)
	}
	return out
}
