package vc

import (
	"go/types"
	"strings"

	"golang.org/x/tools/go/ssa"
)

// unwrapPromoted: a call of a synthetic promoted-method wrapper is treated as the call of the declared method on the
// embedded receiver (found by following the embedding path in the current heap).
func (f *FnVC) unwrapPromoted(st *State, fn *ssa.Function, args []Val) (*ssa.Function, []Val, bool) {
	if fn == nil || !strings.HasPrefix(fn.Synthetic, "wrapper for") || len(args) == 0 {
		return nil, nil, false
	}
	obj, ok := fn.Object().(*types.Func)
	if !ok {
		return nil, nil, false
	}
	recvT := args[0].Typ
	if recvT == nil {
		return nil, nil, false
	}
	o, path, _ := types.LookupFieldOrMethod(recvT, true, obj.Pkg(), obj.Name())
	if o == nil || len(path) < 2 {
		return nil, nil, false
	}
	real := f.E.Prog.FuncValue(obj)
	if real == nil {
		return nil, nil, false
	}
	cur := args[0]
	for _, idx := range path[:len(path)-1] {
		t := unalias(cur.Typ)
		p, isPtr := t.Underlying().(*types.Pointer)
		if !isPtr {
			return nil, nil, false
		}
		stt, ok := unalias(p.Elem()).Underlying().(*types.Struct)
		if !ok {
			return nil, nil, false
		}
		v, err := f.specField(&SEnv{f: f, cur: st, old: st, names: map[string]Val{}}, cur, stt.Field(idx).Name())
		if err != nil {
			return nil, nil, false
		}
		cur = v
	}
	// the declared receiver may be a pointer while the embedded field is a value: specField returns the sub-object ref then
	want := real.Signature.Recv().Type()
	if _, wp := unalias(want).Underlying().(*types.Pointer); wp {
		if _, cp := unalias(cur.Typ).Underlying().(*types.Pointer); !cp {
			return nil, nil, false
		}
	}
	na := append([]Val{cur}, args[1:]...)
	return real, na, true
}
