package vc

import (
	"fmt"
	"go/types"
	"sort"
	"strings"

	"golang.org/x/tools/go/ssa"

	"verif/engine/spec"
)

// modKey names a class of heap locations a function may write.
type modKey struct {
	kind  string     // "F" field of struct, "O" whole object of type t, "E" slice/array elements of elem type t, "C" cell of type t, "M" map of type t
	t     types.Type // struct type (F,O), element type (E), cell type (C), map type (M)
	field int
	name  string // ghost field name (kind "G")
}

func (k modKey) String() string {
	if k.kind == "G" {
		return "G:" + k.name
	}
	return fmt.Sprintf("%s:%s:%d", k.kind, types.TypeString(unalias(k.t), nil), k.field)
}

type modset struct {
	all      bool
	argReach bool
	comps    map[string]modKey
}

func newModset() *modset { return &modset{comps: map[string]modKey{}} }

func (m *modset) add(k modKey) { m.comps[k.String()] = k }
func (m *modset) union(o *modset) {
	if o == nil {
		return
	}
	if o.all {
		m.all = true
	}
	// argReach ("the callee may write objects reachable from ITS arguments") is a fact about one call site: it is not
	// inherited by callers; what such a call may write is propagated as type-level keys (argTypeKeys)
	for s, k := range o.comps {
		m.comps[s] = k
	}
}

func (e *Engine) inModule(fn *ssa.Function) bool {
	if fn == nil {
		return false
	}
	p := fn.Pkg
	if p == nil && fn.Origin() != nil {
		p = fn.Origin().Pkg
	}
	if p == nil {
		if fn.Parent() != nil {
			return e.inModule(fn.Parent())
		}
		return false
	}
	return strings.HasPrefix(p.Pkg.Path(), e.ModulePath)
}

// freshRoot reports whether the address is rooted in an allocation of the same function that has not escaped
// through a store (purely local memory): writes to it are invisible to callers.
func freshRoot(v ssa.Value, depth int) bool {
	if depth > 8 {
		return false
	}
	switch x := v.(type) {
	case *ssa.Alloc:
		return !x.Heap
	case *ssa.FieldAddr:
		return freshRoot(x.X, depth+1)
	case *ssa.IndexAddr:
		return freshRoot(x.X, depth+1)
	case *ssa.Slice:
		return freshRoot(x.X, depth+1)
	case *ssa.MakeSlice:
		return false // may be returned; keep conservative
	}
	return false
}

func derefType(t types.Type) types.Type {
	if p, ok := unalias(t).Underlying().(*types.Pointer); ok {
		return p.Elem()
	}
	return t
}

// writeKeys returns the modKeys for a store through addr of a value of type vt.
func writeKeys(addr ssa.Value, vt types.Type) []modKey {
	switch x := addr.(type) {
	case *ssa.FieldAddr:
		st := derefType(x.X.Type())
		ft := st.Underlying().(*types.Struct).Field(x.Field).Type()
		if isAggregate(ft) {
			return []modKey{{kind: "O", t: ft}}
		}
		// inside a by-value aggregate stored in an element/field: the root is what changes
		if inner, ok := x.X.(*ssa.IndexAddr); ok {
			return writeKeys(inner, nil)
		}
		if inner, ok := x.X.(*ssa.FieldAddr); ok {
			ist := derefType(inner.X.Type())
			ift := ist.Underlying().(*types.Struct).Field(inner.Field).Type()
			if !isAggregate(ift) {
				return writeKeys(inner, nil)
			}
		}
		return []modKey{{kind: "F", t: st, field: x.Field}}
	case *ssa.IndexAddr:
		switch t := unalias(x.X.Type()).Underlying().(type) {
		case *types.Slice:
			return []modKey{{kind: "E", t: t.Elem()}}
		case *types.Pointer:
			if at, ok := unalias(t.Elem()).Underlying().(*types.Array); ok {
				return []modKey{{kind: "E", t: at.Elem()}}
			}
		}
	}
	t := derefType(addr.Type())
	if isStruct(t) {
		return []modKey{{kind: "O", t: t}}
	}
	if at, ok := unalias(t).Underlying().(*types.Array); ok {
		return []modKey{{kind: "E", t: at.Elem()}}
	}
	return []modKey{{kind: "C", t: t}}
}

// directWrites collects the heap writes of a set of blocks (no callees).
func (e *Engine) instrWrites(in ssa.Instruction, ms *modset) {
	switch x := in.(type) {
	case *ssa.Store:
		if freshRoot(x.Addr, 0) {
			return
		}
		for _, k := range writeKeys(x.Addr, x.Val.Type()) {
			ms.add(k)
		}
	case *ssa.MapUpdate:
		ms.add(modKey{kind: "M", t: unalias(x.Map.Type()).Underlying()})
	}
}

func (e *Engine) callWrites(c *ssa.CallCommon, ms *modset, visiting map[*ssa.Function]bool) {
	if b, ok := c.Value.(*ssa.Builtin); ok {
		switch b.Name() {
		case "append", "copy":
			if sl, ok := unalias(c.Args[0].Type()).Underlying().(*types.Slice); ok {
				if !freshRoot(c.Args[0], 0) {
					ms.add(modKey{kind: "E", t: sl.Elem()})
				}
			}
		case "delete", "clear":
			if mt, ok := unalias(c.Args[0].Type()).Underlying().(*types.Map); ok {
				ms.add(modKey{kind: "M", t: mt})
			}
		}
		return
	}
	if e.exemptFreshArgs {
		if ct, fn := e.framedCallee(c); ct != nil {
			e.frameAtCall(ct, c, fn, ms)
			return
		}
	}
	ms.union(e.modsetOfCallee(c, visiting))
}

// framedCallee: the callee's frame comes straight from its contract (trusted / pure / declared frame outside inference).
func (e *Engine) framedCallee(c *ssa.CallCommon) (*spec.FuncContract, *ssa.Function) {
	if c.IsInvoke() {
		k := "(" + types.TypeString(unalias(c.Value.Type()), nil) + ")." + c.Method.Name()
		if ct := e.Contracts[k]; ct != nil && (ct.HasMod || ct.Trusted || ct.Pure) {
			return ct, nil
		}
		if recv := c.Method.Type().(*types.Signature).Recv(); recv != nil {
			k2 := "(" + types.TypeString(unalias(recv.Type()), nil) + ")." + c.Method.Name()
			if ct := e.Contracts[k2]; ct != nil && (ct.HasMod || ct.Trusted || ct.Pure) {
				return ct, nil
			}
		}
		return nil, nil
	}
	if fn, ok := c.Value.(*ssa.Function); ok {
		if ct := e.Contracts[FuncKey(fn)]; ct != nil && (ct.HasMod || ct.Trusted || ct.Pure) {
			if !ct.Trusted && !ct.Pure && len(ct.Modifies) > 0 && fn.Blocks != nil && e.inModule(fn) {
				return nil, nil // in-module bodies: inference (which applies the same exemption inside)
			}
			return ct, fn
		}
	}
	return nil, nil
}

func (e *Engine) modsetOfCallee(c *ssa.CallCommon, visiting map[*ssa.Function]bool) *modset {
	out := newModset()
	// a contract with an explicit frame wins
	if c.IsInvoke() {
		k := "(" + types.TypeString(unalias(c.Value.Type()), nil) + ")." + c.Method.Name()
		if ct := e.Contracts[k]; ct != nil && (ct.HasMod || ct.Trusted || ct.Pure) {
			e.contractFrame(ct, c.Signature(), nil, out)
			return out
		}
		if recv := c.Method.Type().(*types.Signature).Recv(); recv != nil {
			k2 := "(" + types.TypeString(unalias(recv.Type()), nil) + ")." + c.Method.Name()
			if ct := e.Contracts[k2]; ct != nil && (ct.HasMod || ct.Trusted || ct.Pure) {
				e.contractFrame(ct, c.Signature(), nil, out)
				return out
			}
		}
		out.argReach = true
		argTypeKeys(c, out)
		for _, fn := range e.implementors(c) {
			out.union(e.modsetOfFunc(fn, visiting))
		}
		return out
	}
	switch v := c.Value.(type) {
	case *ssa.Function:
		ms := e.modsetOfFunc(v, visiting)
		out.union(ms)
		if ms.argReach {
			out.argReach = true
			argTypeKeys(c, out)
		}
	case *ssa.MakeClosure:
		out.union(e.modsetOfFunc(v.Fn.(*ssa.Function), visiting))
	default:
		fns, ok := closureOrigins(c.Value, 0)
		if !ok {
			out.all = true
			return out
		}
		for _, fn := range fns {
			out.union(e.modsetOfFunc(fn, visiting))
		}
	}
	return out
}

// closureOrigins resolves a func value to the closures it can be (only through phis / changetype).
func closureOrigins(v ssa.Value, depth int) ([]*ssa.Function, bool) {
	if depth > 6 {
		return nil, false
	}
	switch x := v.(type) {
	case *ssa.MakeClosure:
		return []*ssa.Function{x.Fn.(*ssa.Function)}, true
	case *ssa.Function:
		return []*ssa.Function{x}, true
	case *ssa.ChangeType:
		return closureOrigins(x.X, depth+1)
	case *ssa.Phi:
		var out []*ssa.Function
		for _, ed := range x.Edges {
			if c, ok := ed.(*ssa.Const); ok && c.IsNil() {
				continue
			}
			fns, ok := closureOrigins(ed, depth+1)
			if !ok {
				return nil, false
			}
			out = append(out, fns...)
		}
		return out, true
	}
	return nil, false
}

func (e *Engine) implementors(c *ssa.CallCommon) []*ssa.Function {
	it, ok := unalias(c.Value.Type()).Underlying().(*types.Interface)
	if !ok {
		return nil
	}
	key := types.TypeString(unalias(c.Value.Type()), nil) + "." + c.Method.Name()
	if fns, ok := e.implCache[key]; ok {
		return fns
	}
	var out []*ssa.Function
	for _, t := range e.moduleTypes {
		for _, tt := range []types.Type{t, types.NewPointer(t)} {
			if !types.Implements(tt, it) {
				continue
			}
			ms := e.Prog.MethodSets.MethodSet(tt)
			sel := ms.Lookup(c.Method.Pkg(), c.Method.Name())
			if sel == nil {
				continue
			}
			if fn := e.Prog.MethodValue(sel); fn != nil {
				out = append(out, fn)
			}
			break
		}
	}
	e.implCache[key] = out
	return out
}

// modsetOfFunc computes (memoised, cycle-tolerant) the heap locations fn may write.
func (e *Engine) modsetOfFunc(fn *ssa.Function, visiting map[*ssa.Function]bool) *modset {
	if ms, ok := e.modsets[fn]; ok {
		return ms
	}
	// explicit frame from a contract
	if ct := e.Contracts[FuncKey(fn)]; ct != nil && (ct.HasMod || ct.Trusted || ct.Pure) {
		ms := newModset()
		e.contractFrame(ct, fn.Signature, fn, ms)
		if !ct.Trusted && !ct.Pure && len(ct.Modifies) > 0 && fn.Blocks != nil && e.inModule(fn) {
			// fall through to inference for use in *callers without contract application* (e.g. loop havoc)
		} else {
			e.modsets[fn] = ms
			return ms
		}
	}
	if !e.inModule(fn) || fn.Blocks == nil {
		ms := newModset()
		ms.argReach = true
		e.modsets[fn] = ms
		return ms
	}
	if visiting[fn] {
		return newModset() // cycle: the fixpoint is reached by the outer computation
	}
	visiting[fn] = true
	ms := newModset()
	saved := e.exemptFreshArgs
	e.exemptFreshArgs = true
	defer func() { e.exemptFreshArgs = saved }()
	for _, b := range fn.Blocks {
		for _, in := range b.Instrs {
			e.instrWrites(in, ms)
			switch x := in.(type) {
			case *ssa.Call:
				e.callWrites(&x.Call, ms, visiting)
			case *ssa.Defer:
				e.callWrites(&x.Call, ms, visiting)
			case *ssa.Go:
				e.callWrites(&x.Call, ms, visiting)
			case *ssa.MakeClosure:
				ms.union(e.modsetOfFunc(x.Fn.(*ssa.Function), visiting))
			}
		}
	}
	delete(visiting, fn)
	if len(visiting) == 0 {
		e.modsets[fn] = ms // only memoise complete (non-cyclic-partial) results
	}
	return ms
}

// modsetOfCall is the frame used when a call is havocked.
func (e *Engine) modsetOfCall(f *FnVC, fn *ssa.Function, c *ssa.CallCommon) *modset {
	return e.modsetOfCallee(c, map[*ssa.Function]bool{})
}

// loopWrites: heap locations written by the blocks of a loop (including callees).
func (e *Engine) loopWrites(li *loopInfo) *modset {
	ms := newModset()
	var blocks []*ssa.BasicBlock
	for b := range li.blocks {
		blocks = append(blocks, b)
	}
	sort.Slice(blocks, func(i, j int) bool { return blocks[i].Index < blocks[j].Index })
	for _, b := range blocks {
		for _, in := range b.Instrs {
			// inside the function itself writes to its own local memory count (no freshRoot exemption)
			switch x := in.(type) {
			case *ssa.Store:
				for _, k := range writeKeys(x.Addr, x.Val.Type()) {
					ms.add(k)
				}
			case *ssa.MapUpdate:
				ms.add(modKey{kind: "M", t: unalias(x.Map.Type()).Underlying()})
			case *ssa.Call:
				if bi, ok := x.Call.Value.(*ssa.Builtin); ok && (bi.Name() == "append" || bi.Name() == "copy") {
					if sl, ok := unalias(x.Call.Args[0].Type()).Underlying().(*types.Slice); ok {
						ms.add(modKey{kind: "E", t: sl.Elem()})
					}
				}
			}
			switch x := in.(type) {
			case *ssa.Call:
				e.callWrites(&x.Call, ms, map[*ssa.Function]bool{})
			case *ssa.Defer:
				e.callWrites(&x.Call, ms, map[*ssa.Function]bool{})
			case *ssa.Go:
				e.callWrites(&x.Call, ms, map[*ssa.Function]bool{})
			}
		}
	}
	return ms
}

func (f *FnVC) havocModKey(st *State, k modKey, seen map[string]bool) {
	switch k.kind {
	case "G":
		if gt, ok := f.E.GhostFields[k.name]; ok {
			if t, err := f.specType(&SEnv{f: f}, gt); err == nil {
				f.havocComp(st, "G$"+k.name, arraySort(SRef, f.TE.Sort(t)))
			}
		}
	case "F":
		si := f.TE.StructInfo(k.t)
		ft := unalias(k.t).Underlying().(*types.Struct).Field(k.field).Type()
		f.havocComp(st, fieldComp(si.Name, k.field), arraySort(SRef, f.TE.Sort(ft)))
	case "O":
		key := k.String()
		if seen[key] {
			return
		}
		seen[key] = true
		if stt, ok := unalias(k.t).Underlying().(*types.Struct); ok {
			si := f.TE.StructInfo(k.t)
			for i := 0; i < stt.NumFields(); i++ {
				ft := stt.Field(i).Type()
				if isAggregate(ft) {
					f.havocModKey(st, modKey{kind: "O", t: ft}, seen)
				} else {
					f.havocComp(st, fieldComp(si.Name, i), arraySort(SRef, f.TE.Sort(ft)))
				}
			}
		} else if at, ok := unalias(k.t).Underlying().(*types.Array); ok {
			es := f.TE.Sort(at.Elem())
			f.havocComp(st, elemComp(es), arraySort(SRef, arraySort(BV(64), es)))
		}
	case "E":
		es := f.TE.Sort(k.t)
		f.havocComp(st, elemComp(es), arraySort(SRef, arraySort(BV(64), es)))
	case "C":
		cs := f.TE.Sort(k.t)
		f.havocComp(st, cellComp(cs), arraySort(SRef, cs))
	case "M":
		if mt, ok := unalias(k.t).Underlying().(*types.Map); ok {
			has, val, ln, ks, vs := f.mapComps(mt)
			f.havocComp(st, has, arraySort(SRef, arraySort(ks, SBool)))
			f.havocComp(st, val, arraySort(SRef, arraySort(ks, vs)))
			f.havocComp(st, ln, arraySort(SRef, BV(64)))
		}
	}
}

func (f *FnVC) havocModset(st *State, ms *modset) {
	if ms.all {
		f.havocAll(st)
		return
	}
	var ks []string
	for k := range ms.comps {
		ks = append(ks, k)
	}
	sort.Strings(ks)
	seen := map[string]bool{}
	for _, k := range ks {
		f.havocModKey(st, ms.comps[k], seen)
	}
}
