package vc

import (
	"fmt"
	"go/types"

	"verif/engine/spec"
)

// fieldsKeys resolves fields(T, f1, f2, ...) to mod-set keys: field f of any object of struct type T.
func (e *Engine) fieldsKeys(pkg *types.Package, args []*spec.Expr) ([]modKey, error) {
	if len(args) < 2 || pkg == nil {
		return nil, fmt.Errorf("fields(T, f...) needs a type and at least one field")
	}
	var obj types.Object
	switch args[0].Op {
	case "id":
		obj = pkg.Scope().Lookup(args[0].Tok)
	case "sel":
		if args[0].Args[0].Op == "id" {
			if p := e.findPackage(pkg, args[0].Args[0].Tok, args[0].Tok); p != nil {
				obj = p.Scope().Lookup(args[0].Tok)
			}
		}
	}
	if obj == nil {
		return nil, fmt.Errorf("fields(): unknown type %s", args[0])
	}
	st, ok := obj.Type().Underlying().(*types.Struct)
	if !ok {
		return nil, fmt.Errorf("fields(): %s is not a struct", args[0])
	}
	var out []modKey
	for _, a := range args[1:] {
		idx := e.fieldIndex(st, a.Tok)
		if idx < 0 {
			return nil, fmt.Errorf("fields(): no field %s in %s", a.Tok, args[0])
		}
		ft := st.Field(idx).Type()
		if isAggregate(ft) {
			out = append(out, modKey{kind: "O", t: ft})
		} else {
			out = append(out, modKey{kind: "F", t: obj.Type(), field: idx})
		}
	}
	return out, nil
}
