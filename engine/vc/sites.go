package vc

import (
	"go/token"
	"go/types"
	"sort"

	"golang.org/x/tools/go/ssa"

	"verif/engine/spec"
)

// sourceOrdinal: k-th call (in source order) of the function that matches the selector's pattern/arg type.
func (f *FnVC) sourceOrdinal(ac *spec.AtCall, pos token.Pos) int {
	if f.acOrd == nil {
		f.acOrd = map[*spec.AtCall]map[token.Pos]int{}
	}
	m, ok := f.acOrd[ac]
	if !ok {
		var ps []token.Pos
		for _, b := range f.Fn.Blocks {
			for _, in := range b.Instrs {
				var c *ssa.CallCommon
				switch x := in.(type) {
				case *ssa.Call:
					c = &x.Call
				case *ssa.Defer:
					c = &x.Call
				case *ssa.Go:
					c = &x.Call
				}
				if c == nil {
					continue
				}
				_, _, display := f.calleeKeys(c)
				if b, isBuiltin := c.Value.(*ssa.Builtin); isBuiltin {
					display = b.Name() // builtins are selected by their bare name (append, len, delete, ...)
				}
				if !matchCallee(ac.Pattern, display) {
					continue
				}
				if ac.ArgType != "" && !f.argTypeMatches(c, ac.ArgType) {
					continue
				}
				ps = append(ps, in.Pos())
			}
		}
		sort.Slice(ps, func(i, j int) bool { return ps[i] < ps[j] })
		m = map[token.Pos]int{}
		for i, p := range ps {
			if _, dup := m[p]; !dup {
				m[p] = i + 1
			}
		}
		f.acOrd[ac] = m
	}
	return m[pos]
}

// noteSiteRaw: at-call hooks for pseudo call sites (e.g. "mapupdate"); only assert actions, no ordinals.
func (f *FnVC) noteSiteRaw(st *State, display string, args []Val, pos token.Pos) {
	for _, ac := range f.Ct.AtCalls {
		if ac.Pattern != display {
			continue
		}
		f.acMatched[ac]++
		if ac.Label != "" {
			f.sites[ac.Label] = &callSite{label: ac.Label, reach: st.Reach, args: args}
		}
		if ac.Action != "assert" {
			continue
		}
		env := f.siteEnv(st, args, nil)
		v, err := f.evalSpec(env, ac.Clause.Expr, types.Typ[types.Bool])
		if err != nil {
			f.E.specError(ac.Clause, err)
			continue
		}
		lbl := ac.Clause.Label
		if lbl == "" {
			lbl = ac.Pattern
		}
		f.oblige("at-call", lbl, st, v.T, pos, "at-call "+ac.Pattern+": "+ac.Clause.Text)
	}
}
