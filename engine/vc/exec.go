package vc

import (
	"fmt"
	"go/token"
	"go/types"
	"sort"
	"strings"

	"golang.org/x/tools/go/ssa"

	"verif/engine/spec"
)

// Obligation is one proof goal: prefix of the script + reach ∧ ¬goal must be unsat.
type Obligation struct {
	Name      string
	Kind      string
	Func      string
	Prefix    int
	Reach     Term
	Goal      Term
	Pos       string
	Desc      string
	ExpectSat bool // vacuity canary: must be satisfiable
	SC        *Script
	Inputs    []ModelVar // terms to read from a model for replay
	Structural bool      // decided without SMT
	StructOK   bool
}

type ModelVar struct {
	Name string // human name (parameter / result)
	Term string
	Sort string
	Type string
}

// Val is the symbolic value of an SSA value.
type Val struct {
	T     Term
	Tuple []Val
	Typ   types.Type
	Loc   *Loc
	// Origin facts used by the lock-set rules
	GuardLock *Term // value is a reference-typed guarded field's content: accesses need this lock
}

// Loc is a pointer value that denotes a known location.
type Loc struct {
	Kind  string // "field" (non-aggregate field of a struct object), "elem" (slice/array element)
	Base  Term   // object ref (field) / backing ref (elem)
	SName string // struct name (field)
	Field int
	FType types.Type
	Index Term   // absolute element index (elem)
	EType types.Type
	Sels  []int  // by-value struct field selectors applied to the element/field value
	SelTs []types.Type
}

type node struct {
	b  *ssa.BasicBlock
	it int
}

type edge struct {
	from  node
	cond  Term
	state *State
}

// State is the symbolic state at a program point.
type State struct {
	Reach Term
	Heap  map[string]Term
	Epoch int
	// Locals: refs of non-escaping local allocations made on every path to this point
	Locals []Term
	// HeldW: mutexes (struct fields) held exclusively on every path to this point
	HeldW []heldRec
	// Parts: the disjuncts of Reach when this state merges several incoming paths (valid while Reach.S == PartsOf)
	Parts   []Term
	PartsOf string
}

func (s *State) clone() *State {
	h := make(map[string]Term, len(s.Heap))
	for k, v := range s.Heap {
		h[k] = v
	}
	return &State{Reach: s.Reach, Heap: h, Epoch: s.Epoch, Locals: append([]Term{}, s.Locals...), HeldW: append([]heldRec{}, s.HeldW...), Parts: s.Parts, PartsOf: s.PartsOf}
}

type loopInfo struct {
	header  *ssa.BasicBlock
	blocks  map[*ssa.BasicBlock]bool
	ordinal int
	spec    *spec.LoopSpec
	unroll  int
}

type vkey struct {
	v  ssa.Value
	it int
}

type deferRec struct {
	instr *ssa.Defer
	cond  Term
	args  []Val
	it    int
}

type callSite struct {
	label   string
	reach   Term
	res     Val
	args    []Val
	ordinal int
	postSt  *State // state right after the call (for at(label, e))
}

// FnVC generates the obligations of one function.
type FnVC struct {
	E   *Engine
	Fn  *ssa.Function
	Ct  *spec.FuncContract
	SC  *Script
	TE  *TypeEnv
	Short string

	vals     map[vkey]Val
	epochHeap map[int]map[string]Term
	nEpoch   int
	heapSort map[string]string
	Obls     []*Obligation
	ord      map[string]int
	entry    *State
	params   map[string]Val
	loops    []*loopInfo
	loopOf   map[*ssa.BasicBlock]*loopInfo // innermost loop containing block
	hdrLoop  map[*ssa.BasicBlock]*loopInfo
	incoming map[node][]edge
	outState map[node]*State
	defers   []deferRec
	sites    map[string]*callSite
	calleeOrd map[string]int
	retEdges []edge // states at return, with result values
	retVals  [][]Val
	Warnings []string
	Abstracted map[string]int
	exitMerge map[vkey]Val
	faDecl   map[string]bool
	curNode  node
	curPos   token.Pos
	usedTrusted map[string]bool
	checks   map[string]bool
	panicEdges []edge

	acMatched       map[*spec.AtCall]int
	uncontracted    map[string]int
	calledContracts map[string]bool
	dynType         map[ssa.Value]types.Type
	closureOf       map[ssa.Value]*ssa.Function
	nodeNames       map[node]map[string]Val
	outNames        map[node]map[string]Val
	localNames      map[string]Val
	addrNames       map[string]ssa.Value
	loopHdrNames    map[*loopInfo]map[string]Val
	loopHdrState    map[*loopInfo]*State
	inputs          []ModelVar
	resultVars      []ModelVar
	entryNames      map[string]Val
	assumed         []string
	usesLocks       bool
	qcount          int
	makeSites       []makeSite
	returns         []retRec
	placeholders    map[string]*callSite
	acOrd           map[*spec.AtCall]map[token.Pos]int
	localRefs       []Term // refs of non-escaping local allocations
	tiDone          map[string]bool
	roCell          map[vkey]Val // value of single-assignment captured variables
	privInfo        map[*ssa.Alloc]*privCell
	privRefs        map[*ssa.Alloc]Term // refs of private cells (captured variables nothing but this function's closures can reach)
	privFree        []privFreeRec       // private captured variables of a closure under verification
	epochPrev       map[int]epochOrigin
	// preserveLocalsOnHavoc is set while a *call* is havocked (callees cannot touch non-escaping locals);
	// it is off for loop-head havoc, where the loop body itself may write them.
	preserveLocalsOnHavoc bool
	havocKeeps            []keepRec // cells the havoc in progress cannot affect (guarded by exclusively held locks)
}

func (f *FnVC) warn(format string, a ...any) {
	w := fmt.Sprintf(format, a...)
	for _, x := range f.Warnings {
		if x == w {
			return
		}
	}
	f.Warnings = append(f.Warnings, w)
}

func (f *FnVC) abstracted(what string) { f.Abstracted[what]++ }

// heap component access ------------------------------------------------------

func (f *FnVC) epochTerm(epoch int, name, sort string) Term {
	m := f.epochHeap[epoch]
	if m == nil {
		m = map[string]Term{}
		f.epochHeap[epoch] = m
	}
	if t, ok := m[name]; ok {
		return t
	}
	// a fresh unconstrained constant: the version of this component at the start of the epoch
	t := f.SC.Declare(fmt.Sprintf("H%d_%s", epoch, name), sort)
	// memory of the function's non-escaping locals survives a havoc-everything (no callee can reach it)
	if pe, ok := f.epochPrev[epoch]; ok && strings.HasPrefix(sort, "(Array Int ") && name != heldComp {
		var prev Term
		havePrev := false
		cur := t
		for _, r := range pe.locals {
			if !havePrev {
				prev, havePrev = f.comp(pe.st, name, sort), true
			}
			cur = store(cur, r, sel(prev, r))
		}
		// cells protected by locks this goroutine held exclusively at the havoc
		for _, k := range pe.keeps {
			if k.comp == name {
				if !havePrev {
					prev, havePrev = f.comp(pe.st, name, sort), true
				}
				cur = store(cur, k.idx, sel(prev, k.idx))
			}
		}
		if havePrev {
			t = f.SC.Define(fmt.Sprintf("H%d_%s", epoch, name), cur)
		}
	}
	m[name] = t
	f.heapSort[name] = sort
	return t
}

type epochOrigin struct {
	st     *State
	locals []Term
	keeps  []keepRec
}

func (f *FnVC) comp(st *State, name, sort string) Term {
	if t, ok := st.Heap[name]; ok {
		return t
	}
	return f.epochTerm(st.Epoch, name, sort)
}

func (f *FnVC) setComp(st *State, name string, t Term) {
	f.heapSort[name] = t.Sort
	st.Heap[name] = f.SC.Define("H_"+name, t)
}

func (f *FnVC) havocComp(st *State, name, sort string) {
	f.heapSort[name] = sort
	st.Heap[name] = f.SC.Declare("Hv_"+name, sort)
}

// havocAll starts a new epoch: every component (known or not yet seen) gets an arbitrary new version.
func (f *FnVC) havocAll(st *State) {
	keep := map[string]Term{}
	for _, k := range []string{heldComp, "alloc"} {
		if s, ok := f.heapSort[k]; ok {
			keep[k] = f.comp(st, k, s)
		} else if k == "alloc" {
			keep[k] = f.comp(st, k, SInt)
		} else {
			keep[k] = f.comp(st, k, heldSort())
		}
	}
	prev := st.clone()
	f.nEpoch++
	if f.epochPrev == nil {
		f.epochPrev = map[int]epochOrigin{}
	}
	eo := epochOrigin{st: prev, keeps: f.havocKeeps}
	if f.preserveLocalsOnHavoc {
		eo.locals = prev.Locals
	}
	f.epochPrev[f.nEpoch] = eo
	st.Epoch = f.nEpoch
	st.Heap = keep
}

// obligations -----------------------------------------------------------------

func (f *FnVC) posString(p token.Pos) string {
	if !p.IsValid() {
		p = f.curPos
	}
	if !p.IsValid() {
		return ""
	}
	pp := f.E.Fset.Position(p)
	return fmt.Sprintf("%s:%d", strings.TrimPrefix(pp.Filename, f.E.RepoDir+"/"), pp.Line)
}

func (f *FnVC) oblige(kind, key string, st *State, goal Term, pos token.Pos, desc string) *Obligation {
	if goal.S == "true" {
		// still count it: trivially discharged obligations are obligations
	}
	base := kind
	if key != "" {
		base = kind + "@" + key
	}
	f.ord[base]++
	name := fmt.Sprintf("%s/%s#%d", f.Short, base, f.ord[base])
	o := &Obligation{Name: name, Kind: kind, Func: f.Short, Prefix: f.SC.Mark(), Reach: st.Reach, Goal: goal,
		Pos: f.posString(pos), Desc: desc, SC: f.SC}
	f.Obls = append(f.Obls, o)
	return o
}

func (f *FnVC) assume(st *State, t Term) {
	if t.S == "true" {
		return
	}
	f.SC.Assert(implies(st.Reach, t).S)
}

// CFG / loops -----------------------------------------------------------------

func (f *FnVC) findLoops() {
	fn := f.Fn
	f.loopOf = map[*ssa.BasicBlock]*loopInfo{}
	f.hdrLoop = map[*ssa.BasicBlock]*loopInfo{}
	for _, b := range fn.Blocks {
		for _, s := range b.Succs {
			if s.Dominates(b) { // back edge b -> s
				li := f.hdrLoop[s]
				if li == nil {
					li = &loopInfo{header: s, blocks: map[*ssa.BasicBlock]bool{s: true}}
					f.hdrLoop[s] = li
					f.loops = append(f.loops, li)
				}
				// natural loop: all blocks that reach b without passing s
				var stack []*ssa.BasicBlock
				if !li.blocks[b] {
					li.blocks[b] = true
					stack = append(stack, b)
				}
				for len(stack) > 0 {
					x := stack[len(stack)-1]
					stack = stack[:len(stack)-1]
					for _, p := range x.Preds {
						if !li.blocks[p] {
							li.blocks[p] = true
							stack = append(stack, p)
						}
					}
				}
			}
		}
	}
	sort.Slice(f.loops, func(i, j int) bool {
		pi, pj := f.loopPos(f.loops[i]), f.loopPos(f.loops[j])
		if pi != pj {
			return pi < pj
		}
		return f.loops[i].header.Index < f.loops[j].header.Index
	})
	for i, li := range f.loops {
		li.ordinal = i + 1
		if f.Ct != nil {
			li.spec = f.Ct.Loops[li.ordinal]
		}
		if li.spec != nil {
			li.unroll = li.spec.Unroll
		}
	}
	// innermost loop per block = smallest loop containing it
	for _, b := range fn.Blocks {
		var best *loopInfo
		for _, li := range f.loops {
			if li.blocks[b] && (best == nil || len(li.blocks) < len(best.blocks)) {
				best = li
			}
		}
		f.loopOf[b] = best
	}
}

// loopPos orders loops by the source position of their header's first positioned instruction.
func (f *FnVC) loopPos(li *loopInfo) token.Pos {
	best := token.Pos(1 << 40)
	for b := range li.blocks {
		for _, in := range b.Instrs {
			if p := in.Pos(); p.IsValid() && p < best {
				best = p
			}
		}
	}
	return best
}

// unrolledLoopOf returns the innermost *unrolled* loop containing b.
func (f *FnVC) unrolledLoopOf(b *ssa.BasicBlock) *loopInfo {
	var best *loopInfo
	for _, li := range f.loops {
		if li.unroll > 0 && li.blocks[b] && (best == nil || len(li.blocks) < len(best.blocks)) {
			best = li
		}
	}
	return best
}

func (f *FnVC) isBackEdge(from, to *ssa.BasicBlock) bool {
	li := f.hdrLoop[to]
	return li != nil && li.blocks[from] && to.Dominates(from)
}

// order returns the node processing order (topological over the cut/unrolled DAG).
func (f *FnVC) order() []node {
	fn := f.Fn
	// reverse postorder ignoring back edges
	seen := map[*ssa.BasicBlock]bool{}
	var post []*ssa.BasicBlock
	var dfs func(b *ssa.BasicBlock)
	dfs = func(b *ssa.BasicBlock) {
		seen[b] = true
		for _, s := range b.Succs {
			if !seen[s] && !f.isBackEdge(b, s) {
				dfs(s)
			}
		}
		post = append(post, b)
	}
	dfs(fn.Blocks[0])
	if fn.Recover != nil && !seen[fn.Recover] {
		dfs(fn.Recover)
	}
	var rpo []*ssa.BasicBlock
	for i := len(post) - 1; i >= 0; i-- {
		rpo = append(rpo, post[i])
	}
	var out []node
	emitted := map[*ssa.BasicBlock]bool{}
	for _, b := range rpo {
		if emitted[b] {
			continue
		}
		ul := f.unrolledLoopOf(b)
		if ul == nil {
			out = append(out, node{b, 0})
			emitted[b] = true
			continue
		}
		// outermost unrolled loop containing b
		for _, li := range f.loops {
			if li.unroll > 0 && li.blocks[b] && len(li.blocks) > len(ul.blocks) {
				ul = li
			}
		}
		// emit the whole loop, iteration by iteration, in rpo order
		for it := 0; it <= ul.unroll; it++ {
			for _, x := range rpo {
				if ul.blocks[x] {
					if it == ul.unroll && x != ul.header {
						continue
					}
					out = append(out, node{x, it})
					emitted[x] = true
				}
			}
		}
	}
	return out
}

// succNode gives the instance reached by the CFG edge n.b -> s (ok=false for cut back-edges).
func (f *FnVC) succNode(n node, s *ssa.BasicBlock) (node, bool) {
	if f.isBackEdge(n.b, s) {
		li := f.hdrLoop[s]
		if li.unroll > 0 {
			return node{s, n.it + 1}, true
		}
		return node{}, false
	}
	ulFrom := f.outerUnrolled(n.b)
	ulTo := f.outerUnrolled(s)
	if ulTo == nil {
		return node{s, 0}, true
	}
	if ulFrom == ulTo {
		return node{s, n.it}, true
	}
	return node{s, 0}, true
}

func (f *FnVC) outerUnrolled(b *ssa.BasicBlock) *loopInfo {
	var best *loopInfo
	for _, li := range f.loops {
		if li.unroll > 0 && li.blocks[b] && (best == nil || len(li.blocks) > len(best.blocks)) {
			best = li
		}
	}
	return best
}

// value lookup -----------------------------------------------------------------

func (f *FnVC) itFor(def *ssa.BasicBlock, use node) (int, bool) {
	ulDef := f.outerUnrolled(def)
	if ulDef == nil {
		return 0, true
	}
	ulUse := f.outerUnrolled(use.b)
	if ulUse == ulDef {
		return use.it, true
	}
	return 0, false // defined inside an unrolled loop, used outside: exit merge
}

func (f *FnVC) get(v ssa.Value) Val {
	switch x := v.(type) {
	case *ssa.Const:
		return f.constVal(x)
	case *ssa.Global:
		return f.globalVal(x)
	case *ssa.Function:
		return Val{T: f.funcRef(x), Typ: x.Type()}
	case *ssa.Builtin:
		return Val{T: Term{"0", SRef}, Typ: x.Type()}
	case *ssa.Parameter, *ssa.FreeVar:
		if val, ok := f.vals[vkey{v, 0}]; ok {
			return val
		}
		panic("unbound parameter " + v.Name())
	}
	in, ok := v.(ssa.Instruction)
	if !ok {
		panic(fmt.Sprintf("unknown value kind %T", v))
	}
	it, same := f.itFor(in.Block(), f.curNode)
	if same {
		if val, ok := f.vals[vkey{v, it}]; ok {
			return val
		}
		// value from a block not processed (unreachable or abstracted): arbitrary
		val := f.freshVal("undef_"+v.Name(), v.Type())
		f.vals[vkey{v, it}] = val
		return val
	}
	return f.exitMerged(v, in.Block())
}

// exitMerged merges the instances of a value defined in an unrolled loop for uses after the loop:
// the instance of the iteration in which the loop was left.
func (f *FnVC) exitMerged(v ssa.Value, def *ssa.BasicBlock) Val {
	if val, ok := f.exitMerge[vkey{v, -1}]; ok {
		return val
	}
	ul := f.outerUnrolled(def)
	var res *Val
	for it := ul.unroll; it >= 0; it-- {
		val, ok := f.vals[vkey{v, it}]
		if !ok {
			continue
		}
		if res == nil {
			vv := val
			res = &vv
			continue
		}
		// prefer iteration `it` if the loop was left in iteration `it`: i.e. header instance it+1 not reached
		var reached Term
		if st, ok := f.outState[node{ul.header, it + 1}]; ok {
			reached = st.Reach
		} else {
			reached = boolLit(false)
		}
		m := f.mergeVal(not(reached), val, *res)
		res = &m
	}
	if res == nil {
		val := f.freshVal("undef_"+v.Name(), v.Type())
		res = &val
	}
	f.exitMerge[vkey{v, -1}] = *res
	return *res
}

func (f *FnVC) mergeVal(c Term, a, b Val) Val {
	if a.Tuple != nil {
		out := Val{Typ: a.Typ}
		for i := range a.Tuple {
			out.Tuple = append(out.Tuple, f.mergeVal(c, a.Tuple[i], b.Tuple[i]))
		}
		return out
	}
	out := Val{T: ite(c, a.T, b.T), Typ: a.Typ}
	if a.Loc != nil && b.Loc != nil && a.T.S == b.T.S {
		out.Loc = a.Loc
	}
	if a.GuardLock != nil {
		out.GuardLock = a.GuardLock
	} else {
		out.GuardLock = b.GuardLock
	}
	return out
}

func (f *FnVC) set(v ssa.Value, val Val) {
	if val.Tuple == nil {
		val.T = f.SC.Define("v_"+v.Name(), val.T)
	}
	f.vals[vkey{v, f.curNode.it}] = val
}

func (f *FnVC) freshVal(prefix string, t types.Type) Val {
	if tup, ok := t.(*types.Tuple); ok {
		out := Val{Typ: t}
		for i := 0; i < tup.Len(); i++ {
			out.Tuple = append(out.Tuple, f.freshVal(fmt.Sprintf("%s_%d", prefix, i), tup.At(i).Type()))
		}
		return out
	}
	val := Val{T: f.SC.Declare(prefix, f.TE.Sort(t)), Typ: t}
	f.typeInvariant(nil, val)
	return val
}

// typeInvariant assumes the Go type's representation invariant on an arbitrary value.
func (f *FnVC) typeInvariant(st *State, v Val) {
	var inv Term
	switch v.T.Sort {
	case SSlice:
		big := bvLit(1<<56, 64)
		inv = and(
			app("bvule", SBool, app("llen", BV(64), v.T), app("lcap", BV(64), v.T)),
			app("bvule", SBool, app("lcap", BV(64), v.T), big),
			app("bvule", SBool, app("loff", BV(64), v.T), big),
			app(">=", SBool, app("lref", SRef, v.T), Term{"0", SInt}),
			implies(eq(app("lref", SRef, v.T), Term{"0", SInt}), eq(app("lcap", BV(64), v.T), bvLit(0, 64))),
		)
	case SStr:
		big := bvLit(1<<56, 64)
		inv = and(app("bvule", SBool, app("slen", BV(64), v.T), big), app("bvule", SBool, app("soff", BV(64), v.T), big))
	default:
		return
	}
	if st == nil {
		f.SC.Assert(inv.S)
	} else {
		f.assume(st, inv)
	}
}

// merging ------------------------------------------------------------------------

func (f *FnVC) mergeStates(es []edge) *State {
	if len(es) == 1 {
		st := es[0].state.clone()
		st.Reach = f.SC.Define("reach", es[0].cond)
		return st
	}
	var conds []Term
	for _, e := range es {
		conds = append(conds, e.cond)
	}
	st := &State{Reach: f.SC.Define("reach", or(conds...)), Heap: map[string]Term{}, Epoch: es[0].state.Epoch, Parts: conds}
	st.PartsOf = st.Reach.S
	for _, l := range es[0].state.Locals {
		inAll := true
		for _, e := range es[1:] {
			found := false
			for _, m := range e.state.Locals {
				if m.S == l.S {
					found = true
				}
			}
			if !found {
				inAll = false
			}
		}
		if inAll {
			st.Locals = append(st.Locals, l)
		}
	}
	for _, h := range es[0].state.HeldW {
		inAll := true
		for _, e := range es[1:] {
			found := false
			for _, m := range e.state.HeldW {
				if m.lock.S == h.lock.S {
					found = true
				}
			}
			if !found {
				inAll = false
			}
		}
		if inAll {
			st.HeldW = append(st.HeldW, h)
		}
	}
	sameEpoch := true
	for _, e := range es {
		if e.state.Epoch != st.Epoch {
			sameEpoch = false
		}
	}
	keys := map[string]bool{}
	for _, e := range es {
		for k := range e.state.Heap {
			keys[k] = true
		}
	}
	if !sameEpoch {
		// components seen in any of the epochs must be merged explicitly; unseen ones start afresh in a new epoch
		for _, e := range es {
			for k := range f.epochHeap[e.state.Epoch] {
				keys[k] = true
			}
		}
		f.nEpoch++
		st.Epoch = f.nEpoch
	}
	var ks []string
	for k := range keys {
		ks = append(ks, k)
	}
	sort.Strings(ks)
	for _, k := range ks {
		sortK := f.heapSort[k]
		get := func(e edge) Term { return f.comp(e.state, k, sortK) }
		cur := get(es[len(es)-1])
		allSame := true
		for i := len(es) - 2; i >= 0; i-- {
			g := get(es[i])
			if g.S != cur.S {
				allSame = false
			}
			cur = ite(es[i].cond, g, cur)
		}
		if allSame && sameEpoch {
			if _, inHeap := es[0].state.Heap[k]; !inHeap {
				continue
			}
		}
		st.Heap[k] = f.SC.Define("H_"+k, cur)
	}
	return st
}

// names and keys ------------------------------------------------------------------

// FuncKey is the canonical contract key of a function.
func FuncKey(fn *ssa.Function) string {
	if fn == nil {
		return ""
	}
	if fn.Parent() != nil {
		// anonymous function: Outer$k
		return FuncKey(fn.Parent()) + "$" + strings.TrimPrefix(fn.Name()[strings.LastIndex(fn.Name(), "$")+1:], "")
	}
	s := fn.String()
	if o := fn.Origin(); o != nil {
		s = o.String()
	}
	return s
}

// shortKey strips the package path: "(*pkg/path.T).M" -> "(*T).M", "pkg/path.F" -> "pkg.F".
func shortKey(key string) string {
	// receiver form
	if strings.HasPrefix(key, "(") {
		end := strings.Index(key, ")")
		recv := key[1:end]
		star := ""
		if strings.HasPrefix(recv, "*") {
			star = "*"
			recv = recv[1:]
		}
		if i := strings.LastIndex(recv, "/"); i >= 0 {
			recv = recv[i+1:]
		}
		if i := strings.Index(recv, "."); i >= 0 {
			recv = recv[i+1:]
		}
		return "(" + star + recv + ")" + key[end+1:]
	}
	if i := strings.LastIndex(key, "/"); i >= 0 {
		key = key[i+1:]
	}
	return key
}
