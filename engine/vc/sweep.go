package vc

import (
	"go/types"
	"sort"
	"strings"

	"golang.org/x/tools/go/ssa"
	"golang.org/x/tools/go/ssa/ssautil"

	"verif/engine/spec"
)

var errorIface = types.Universe.Lookup("error").Type().Underlying().(*types.Interface)

// panicValueIsError: the value handed to panic() has a static type that implements error (seen through the
// conversion to interface{} that panic's parameter forces).
func panicValueIsError(v ssa.Value) bool {
	for {
		switch x := v.(type) {
		case *ssa.MakeInterface:
			return types.Implements(x.X.Type(), errorIface)
		case *ssa.ChangeInterface:
			v = x.X
			continue
		}
		break
	}
	if it, ok := v.Type().Underlying().(*types.Interface); ok && !it.Empty() {
		return types.Implements(v.Type(), errorIface)
	}
	return false
}

// expandSweeps synthesises an empty contract (safety obligations only) for every function a sweep directive names
// that has no contract of its own; a function that already has a contract just gains the sweep's properties.
func (e *Engine) expandSweeps() {
	if len(e.Sweeps) == 0 {
		return
	}
	var fns []*ssa.Function
	for fn := range ssautil.AllFunctions(e.Prog) {
		if fn.Pkg == nil || fn.Parent() != nil || fn.Synthetic != "" || len(fn.Blocks) == 0 {
			continue
		}
		fns = append(fns, fn)
	}
	sort.Slice(fns, func(i, j int) bool { return FuncKey(fns[i]) < FuncKey(fns[j]) })
	for _, sw := range e.Sweeps {
		for _, fn := range fns {
			if fn.Name() != sw.Name || !strings.HasPrefix(fn.Pkg.Pkg.Path(), sw.PkgPrefix) {
				continue
			}
			key := FuncKey(fn)
			if ct, ok := e.Contracts[key]; ok {
				for _, p := range sw.Props {
					has := false
					for _, q := range ct.Props {
						has = has || q == p
					}
					if !has {
						ct.Props = append(ct.Props, p)
					}
				}
				continue
			}
			ct := &spec.FuncContract{Target: shortKey(key), Key: key, Props: append([]string{}, sw.Props...), Loops: map[int]*spec.LoopSpec{},
				File: sw.File, Line: sw.Line, ErrPanics: true, Swept: true}
			e.Contracts[key] = ct
			e.ContractPkg[ct] = fn.Pkg.Pkg
		}
	}
}
