package vc

import (
	"go/types"
	"sort"
	"strings"

	"golang.org/x/tools/go/ssa"
	"golang.org/x/tools/go/ssa/ssautil"

	"verif/engine/spec"
)

var errorIface = types.Universe.Lookup("error").Type().Underlying().(*types.Interface)

// panicValueIsError: the value handed to panic() has a static type that implements error (seen through the
// conversion to interface{} that panic's parameter forces).
func panicValueIsError(v ssa.Value) bool {
	for {
		switch x := v.(type) {
		case *ssa.MakeInterface:
			return types.Implements(x.X.Type(), errorIface)
		case *ssa.ChangeInterface:
			v = x.X
			continue
		}
		break
	}
	if it, ok := v.Type().Underlying().(*types.Interface); ok && !it.Empty() {
		return types.Implements(v.Type(), errorIface)
	}
	return false
}

// expandSweeps synthesises an empty contract (safety obligations only) for every function a sweep directive names
// that has no contract of its own; a function that already has a contract just gains the sweep's properties.
func (e *Engine) expandSweeps() {
	if len(e.Sweeps) == 0 {
		return
	}
	var fns []*ssa.Function
	for fn := range ssautil.AllFunctions(e.Prog) {
		if fn.Package() == nil || fn.Synthetic != "" || len(fn.Blocks) == 0 {
			continue
		}
		fns = append(fns, fn)
	}
	sort.Slice(fns, func(i, j int) bool { return FuncKey(fns[i]) < FuncKey(fns[j]) })
	for _, sw := range e.Sweeps {
		var reach map[*ssa.Function]bool
		if sw.Reachable {
			reach = e.reachableFrom(fns, sw)
		}
		for _, fn := range fns {
			if reach != nil {
				if !reach[fn] {
					continue
				}
			} else if fn.Parent() != nil || (sw.Name != "*" && fn.Name() != sw.Name) || !strings.HasPrefix(fn.Package().Pkg.Path(), sw.PkgPrefix) {
				continue
			}
			key := FuncKey(fn)
			if ct, ok := e.Contracts[key]; ok {
				if !hasMakeOrPanic(fn) {
					continue // nothing the sweep's obligations could say about it; it stays under its own properties only
				}
				for _, p := range sw.Props {
					has := false
					for _, q := range ct.Props {
						has = has || q == p
					}
					if !has {
						ct.Props = append(ct.Props, p)
					}
				}
				// contracted functions keep their own checks and gain the allocation bound
				if len(ct.Checks) == 0 {
					ct.Checks = []string{"default"}
				}
				ct.Checks = append(ct.Checks, "alloc")
				continue
			}
			ct := &spec.FuncContract{Target: shortKey(key), Key: key, Props: append([]string{}, sw.Props...), Loops: map[int]*spec.LoopSpec{},
				File: sw.File, Line: sw.Line, ErrPanics: true, Swept: true, Checks: []string{"panic", "alloc"}}
			e.Contracts[key] = ct
			e.ContractPkg[ct] = fn.Package().Pkg
		}
	}
}

// reachableFrom: the named root functions below the prefix plus every module function with a body that they can reach
// through static calls, closures they create, deferred calls and interface method calls (resolved to every module type
// implementing the interface). Functions of dependencies are not entered (their behaviour is assumed).
func (e *Engine) reachableFrom(fns []*ssa.Function, sw *spec.Sweep) map[*ssa.Function]bool {
	seen := map[*ssa.Function]bool{}
	var work []*ssa.Function
	push := func(fn *ssa.Function) {
		if fn == nil || seen[fn] || fn.Blocks == nil || !e.inModule(fn) {
			return
		}
		seen[fn] = true
		work = append(work, fn)
	}
	for _, fn := range fns {
		if fn.Parent() == nil && fn.Name() == sw.Name && strings.HasPrefix(fn.Package().Pkg.Path(), sw.PkgPrefix) {
			push(fn)
		}
	}
	for len(work) > 0 {
		fn := work[len(work)-1]
		work = work[:len(work)-1]
		for _, b := range fn.Blocks {
			for _, in := range b.Instrs {
				var c *ssa.CallCommon
				switch x := in.(type) {
				case *ssa.Call:
					c = &x.Call
				case *ssa.Defer:
					c = &x.Call
				case *ssa.Go:
					c = &x.Call
				case *ssa.MakeClosure:
					push(x.Fn.(*ssa.Function))
				}
				if c == nil {
					continue
				}
				if c.IsInvoke() {
					for _, t := range e.implementors(c) {
						push(t)
					}
					continue
				}
				if sf, ok := c.Value.(*ssa.Function); ok {
					push(sf)
				}
				for _, a := range c.Args {
					if sf, ok := a.(*ssa.Function); ok {
						push(sf)
					}
				}
			}
		}
	}
	// closures and synthetic wrappers are verified with their parents / not at all
	out := map[*ssa.Function]bool{}
	for fn := range seen {
		if fn.Synthetic == "" && fn.Package() != nil {
			out[fn] = true
		}
	}
	return out
}

func hasMakeOrPanic(fn *ssa.Function) bool {
	for _, b := range fn.Blocks {
		for _, in := range b.Instrs {
			switch in.(type) {
			case *ssa.MakeSlice, *ssa.Panic:
				return true
			}
		}
	}
	return false
}
