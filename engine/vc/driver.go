package vc

import (
	"fmt"
	"go/types"
	"sort"
	"strings"

	"golang.org/x/tools/go/ssa"

	"verif/engine/spec"
)

// FuncResult is what verifying one function produced.
type FuncResult struct {
	Key        string
	Short      string
	Obls       []*Obligation
	Warnings   []string
	Abstracted map[string]int
	Trusted    []string
	Uncontracted map[string]int
	Assumed    []string
	Mode       string
	Loops      int
	Lines      int
}

func defaultChecks() map[string]bool {
	return map[string]bool{"index": true, "slice": true, "make": true, "div": true}
}

// VerifyFunc generates all obligations of fn against contract ct (ct may be nil: safety sweep only).
func (e *Engine) VerifyFunc(fn *ssa.Function, ct *spec.FuncContract) (res *FuncResult, err error) {
	defer func() {
		if r := recover(); r != nil {
			err = fmt.Errorf("engine failure in %s: %v", FuncKey(fn), r)
		}
	}()
	sc := NewScript()
	short := shortKey(FuncKey(fn))
	if ct != nil && ct.Swept && fn.Package() != nil {
		// swept functions come from many packages: keep obligation names unique by prefixing the package name
		short = fn.Package().Pkg.Name() + ":" + short
	}
	f := &FnVC{E: e, Fn: fn, Ct: ct, SC: sc, TE: NewTypeEnv(sc), Short: short,
		vals: map[vkey]Val{}, epochHeap: map[int]map[string]Term{}, heapSort: map[string]string{}, ord: map[string]int{},
		params: map[string]Val{}, incoming: map[node][]edge{}, outState: map[node]*State{}, sites: map[string]*callSite{},
		calleeOrd: map[string]int{}, Abstracted: map[string]int{}, exitMerge: map[vkey]Val{}, faDecl: map[string]bool{},
		usedTrusted: map[string]bool{}, checks: defaultChecks(), acMatched: map[*spec.AtCall]int{}, uncontracted: map[string]int{},
		calledContracts: map[string]bool{}, dynType: map[ssa.Value]types.Type{}, closureOf: map[ssa.Value]*ssa.Function{},
		nodeNames: map[node]map[string]Val{}, addrNames: map[string]ssa.Value{}, loopHdrNames: map[*loopInfo]map[string]Val{},
		loopHdrState: map[*loopInfo]*State{}, outNames: map[node]map[string]Val{}}
	if fn.Blocks == nil {
		return nil, fmt.Errorf("%s has no body", FuncKey(fn))
	}
	if ct != nil && len(ct.Checks) > 0 {
		f.checks = map[string]bool{}
		for _, c := range ct.Checks {
			if c == "none" {
				continue
			}
			if c == "default" {
				for k := range defaultChecks() {
					f.checks[k] = true
				}
				continue
			}
			f.checks[c] = true
		}
	}
	sc.Comment("function " + FuncKey(fn))
	entry := &State{Reach: boolLit(true), Heap: map[string]Term{}}
	f.entry = entry
	// allocation counter
	a0 := f.comp(entry, "alloc", SInt)
	sc.Assert(fmt.Sprintf("(>= %s 0)", a0.S))
	// parameters and free variables
	bind := func(v ssa.Value, name string) {
		val := f.freshVal("p_"+name, v.Type())
		f.vals[vkey{v, 0}] = val
		f.assumeKnown(entry, val)
		if name != "" && name != "_" {
			f.params[name] = val
		}
		f.inputs = append(f.inputs, ModelVar{Name: name, Term: val.T.S, Sort: val.T.Sort, Type: shortType(v.Type())})
	}
	for _, p := range fn.Params {
		bind(p, p.Name())
	}
	for _, fv := range fn.FreeVars {
		bind(fv, fv.Name())
		delete(f.params, fv.Name()) // the source name of a captured variable denotes its content (see bodyEnv)
	}
	f.notePrivateFreeVars()
	f.entryNames = map[string]Val{}
	for k, v := range f.params {
		f.entryNames[k] = v
	}
	// locks: by default a verified function starts with no lock held
	if ct == nil || !contractMentionsHeld(ct) {
		sc.Assert(f.noLocksHeld(entry).S)
	}
	// preconditions
	if ct != nil {
		env := f.bodyEnv(entry)
		for _, r := range ct.Requires {
			v, err := f.evalSpec(env, r.Expr, types.Typ[types.Bool])
			if err != nil {
				e.specError(r, err)
				continue
			}
			sc.Assert(v.T.S)
			f.noteHeldAtEntry(env, entry, r.Expr)
		}
	}
	// vacuity canary: the assumptions at entry are satisfiable
	can := f.oblige("canary", "entry", entry, boolLit(false), fn.Pos(), "vacuity canary: preconditions/axioms must be satisfiable")
	can.ExpectSat = true

	f.findLoops()
	order := f.order()
	f.incoming[node{fn.Blocks[0], 0}] = []edge{{cond: boolLit(true), state: entry}}
	for _, n := range order {
		f.execNode(n)
	}
	f.finish()
	res = &FuncResult{Key: FuncKey(fn), Short: f.Short, Obls: f.Obls, Warnings: f.Warnings, Abstracted: f.Abstracted,
		Uncontracted: f.uncontracted, Assumed: f.assumed, Mode: "bv", Loops: len(f.loops)}
	for k := range f.usedTrusted {
		res.Trusted = append(res.Trusted, k)
	}
	sort.Strings(res.Trusted)
	for _, o := range f.Obls {
		o.Inputs = f.inputs
	}
	return res, nil
}

// execNode processes one block instance.
func (f *FnVC) execNode(n node) {
	ins := f.incoming[n]
	if len(ins) == 0 {
		return // unreachable instance
	}
	f.curNode = n
	st := f.mergeStates(ins)
	f.mergeNames(n, ins)
	li := f.hdrLoop[n.b]
	cutHeader := li != nil && li.unroll == 0
	// phis
	var phis []*ssa.Phi
	for _, in := range n.b.Instrs {
		if p, ok := in.(*ssa.Phi); ok {
			phis = append(phis, p)
		} else {
			break
		}
	}
	predIndex := func(b *ssa.BasicBlock) int {
		for i, p := range n.b.Preds {
			if p == b {
				return i
			}
		}
		return -1
	}
	phiVal := func(p *ssa.Phi, es []edge) Val {
		var cur *Val
		for i := len(es) - 1; i >= 0; i-- {
			e := es[i]
			saved := f.curNode
			f.curNode = e.from
			v := f.get(p.Edges[predIndex(e.from.b)])
			f.curNode = saved
			if cur == nil {
				vv := v
				cur = &vv
			} else {
				m := f.mergeVal(e.cond, v, *cur)
				cur = &m
			}
		}
		cur.Typ = p.Type()
		return *cur
	}
	names := f.nodeNames[n]
	if cutHeader {
		// 1. invariant holds on entry
		entryNames := map[string]Val{}
		for _, p := range phis {
			v := phiVal(p, ins)
			if p.Comment != "" {
				entryNames[p.Comment] = v
			}
		}
		f.checkInvariant(li, st, entryNames, "inv-entry", n.b)
		// 2. havoc loop targets
		ms := f.E.loopWrites(li)
		if ms.all {
			f.havocKeeps = f.guardedKeeps(st, f.modsetCompNames(ms))
		}
		f.havocModset(st, ms)
		f.havocKeeps = nil
		if f.loopAllocates(li) {
			f.bumpAlloc(st)
		}
		for _, p := range phis {
			v := f.freshVal("loop_"+p.Comment, p.Type())
			f.assumeKnown(st, v)
			f.vals[vkey{p, n.it}] = v
			if p.Comment != "" {
				names[p.Comment] = v
			}
		}
		// 3. assume invariant for an arbitrary iteration
		f.assumeInvariant(li, st, names)
		f.loopHdrNames[li] = copyNames(names)
		f.loopHdrState[li] = st.clone()
	} else {
		for _, p := range phis {
			v := phiVal(p, ins)
			v.T = f.SC.Define("phi_"+p.Comment, v.T)
			f.vals[vkey{p, n.it}] = v
			if p.Comment != "" {
				names[p.Comment] = v
			}
		}
	}
	// body
	for _, in := range n.b.Instrs {
		if _, ok := in.(*ssa.Phi); ok {
			continue
		}
		if dr, ok := in.(*ssa.DebugRef); ok {
			if !dr.IsAddr {
				if id, ok := dr.Expr.(interface{ String() string }); ok {
					_ = id
				}
				if name := debugName(dr); name != "" {
					names[name] = f.get(dr.X)
				}
			} else if name := debugName(dr); name != "" {
				// address-taken local: record the pointer under &name, value is loaded on demand
				f.addrNames[name] = dr.X
			}
			continue
		}
		f.localNames = names
		f.execInstr(st, in)
	}
	f.localNames = names
	f.outState[n] = st
	// terminator
	last := n.b.Instrs[len(n.b.Instrs)-1]
	switch t := last.(type) {
	case *ssa.If:
		c := f.get(t.Cond).T
		f.addEdge(n, n.b.Succs[0], st, c)
		f.addEdge(n, n.b.Succs[1], st, not(c))
	case *ssa.Jump:
		f.addEdge(n, n.b.Succs[0], st, boolLit(true))
	case *ssa.Return:
		var rs []Val
		for _, r := range t.Results {
			rs = append(rs, f.get(r))
		}
		f.returns = append(f.returns, retRec{st: st, rs: rs, ret: t, names: copyNames(f.nodeNames[n])})
	case *ssa.Panic:
		f.atPanic(st, t)
	}
}

func copyNames(m map[string]Val) map[string]Val {
	o := make(map[string]Val, len(m))
	for k, v := range m {
		o[k] = v
	}
	return o
}

func debugName(dr *ssa.DebugRef) string {
	type named interface{ Name() string }
	if o := dr.Object(); o != nil {
		// a selector expression x.f refers to the FIELD object f: its value is not the value of a variable named f
		// (binding it would let a contract's "f" silently mean "the last x.f that was read")
		if v, isVar := o.(*types.Var); isVar && v.IsField() {
			return ""
		}
		return o.Name()
	}
	return ""
}

// mergeNames: source-level variable bindings that agree on all incoming edges survive the join.
func (f *FnVC) mergeNames(n node, ins []edge) {
	var out map[string]Val
	for i, e := range ins {
		src := f.outNames[e.from]
		if e.from.b == nil { // function entry
			src = map[string]Val{}
		}
		if i == 0 {
			out = copyNames(src)
			continue
		}
		for k, v := range out {
			if w, ok := src[k]; !ok || w.T.S != v.T.S {
				delete(out, k)
			}
		}
	}
	if out == nil {
		out = map[string]Val{}
	}
	f.nodeNames[n] = out
}

func (f *FnVC) addEdge(from node, to *ssa.BasicBlock, st *State, cond Term) {
	if f.outNames == nil {
		f.outNames = map[node]map[string]Val{}
	}
	f.outNames[from] = f.nodeNames[from]
	c := f.SC.Define("edge", and(st.Reach, cond))
	tn, ok := f.succNode(from, to)
	if !ok {
		// cut back-edge: the invariant must be re-established
		li := f.hdrLoop[to]
		be := st.clone()
		be.Reach = c
		names := map[string]Val{}
		for _, in := range to.Instrs {
			p, isPhi := in.(*ssa.Phi)
			if !isPhi {
				break
			}
			idx := -1
			for i, pb := range to.Preds {
				if pb == from.b {
					idx = i
				}
			}
			if p.Comment != "" && idx >= 0 {
				names[p.Comment] = f.get(p.Edges[idx])
			}
		}
		f.checkInvariant(li, be, names, "inv-preserved", to)
		return
	}
	li := f.hdrLoop[to]
	if li != nil && li.unroll > 0 && tn.it > li.unroll {
		return
	}
	if li != nil && li.unroll > 0 && from.b == to && false {
		return
	}
	// unwinding assertion: entering the body from the last header instance must be impossible
	if ul := f.outerUnrolled(from.b); ul != nil && from.b == ul.header && from.it == ul.unroll && ul.blocks[to] && to != ul.header {
		u := st.clone()
		u.Reach = c
		f.oblige("unwind", fmt.Sprintf("loop%d", ul.ordinal), u, boolLit(false), from.b.Instrs[0].Pos(), fmt.Sprintf("loop %d needs more than %d iterations", ul.ordinal, ul.unroll))
		return
	}
	f.incoming[tn] = append(f.incoming[tn], edge{from: from, cond: c, state: st})
}

func (f *FnVC) loopAllocates(li *loopInfo) bool {
	for b := range li.blocks {
		for _, in := range b.Instrs {
			switch in.(type) {
			case *ssa.Alloc, *ssa.MakeSlice, *ssa.MakeMap, *ssa.MakeClosure, *ssa.MakeChan, *ssa.Call, *ssa.MakeInterface:
				return true
			}
		}
	}
	return false
}

func (f *FnVC) invEnv(st *State, names map[string]Val) *SEnv {
	env := f.bodyEnv(st)
	for k, v := range names {
		env.names[k] = v
	}
	return env
}

func (f *FnVC) checkInvariant(li *loopInfo, st *State, names map[string]Val, kind string, hdr *ssa.BasicBlock) {
	if li.spec == nil {
		return
	}
	all := map[string]Val{}
	for k, v := range f.nodeNames[f.curNode] {
		all[k] = v
	}
	for k, v := range names {
		all[k] = v
	}
	env := f.invEnv(st, all)
	for i, inv := range li.spec.Invariants {
		lbl := inv.Label
		if lbl == "" {
			lbl = fmt.Sprintf("loop%d.%d", li.ordinal, i+1)
		}
		v, err := f.evalSpec(env, inv.Expr, types.Typ[types.Bool])
		if err != nil {
			f.obligeSpecError(kind, lbl, inv, err)
			continue
		}
		f.oblige(kind, lbl, st, v.T, hdr.Instrs[0].Pos(), fmt.Sprintf("loop %d invariant (%s): %s", li.ordinal, kind, inv.Text))
	}
	if kind == "inv-preserved" && li.spec.Decreases != nil {
		hn := f.loopHdrNames[li]
		hs := f.loopHdrState[li]
		if hn != nil && hs != nil {
			before, err1 := f.evalSpec(f.invEnv(hs, hn), li.spec.Decreases.Expr, types.Typ[types.Int])
			after, err2 := f.evalSpec(env, li.spec.Decreases.Expr, types.Typ[types.Int])
			if err1 == nil && err2 == nil {
				goal := and(app("bvsge", SBool, before.T, u64(0)), app("bvslt", SBool, after.T, before.T))
				f.oblige("decreases", fmt.Sprintf("loop%d", li.ordinal), st, goal, hdr.Instrs[0].Pos(), fmt.Sprintf("loop %d variant decreases: %s", li.ordinal, li.spec.Decreases.Text))
			} else if err1 != nil {
				f.E.specError(*li.spec.Decreases, err1)
			} else {
				f.E.specError(*li.spec.Decreases, err2)
			}
		}
	}
}

func (f *FnVC) assumeInvariant(li *loopInfo, st *State, names map[string]Val) {
	if li.spec == nil {
		return
	}
	env := f.invEnv(st, names)
	for _, inv := range li.spec.Invariants {
		v, err := f.evalSpec(env, inv.Expr, types.Typ[types.Bool])
		if err != nil {
			f.E.specError(inv, err)
			continue
		}
		f.assume(st, v.T)
	}
}

// atReturn: postconditions.
type retRec struct {
	st    *State
	rs    []Val
	ret   *ssa.Return
	names map[string]Val
}

func (f *FnVC) atReturn(st *State, rs []Val, ret *ssa.Return, names map[string]Val) {
	if f.Ct == nil {
		return
	}
	f.localNames = names
	env := f.bodyEnv(st)
	// parameters in postconditions denote their entry values
	for k, v := range f.params {
		env.names[k] = v
	}
	sig := f.Fn.Signature
	var res Val
	if len(rs) == 1 {
		res = rs[0]
	} else if len(rs) > 1 {
		res = Val{Tuple: rs, Typ: sig.Results()}
	}
	if len(rs) > 0 {
		f.bindResults(env, sig, res)
	}
	for i, en := range f.Ct.Ensures {
		lbl := en.Label
		if lbl == "" {
			lbl = fmt.Sprintf("e%d", i+1)
		}
		v, err := f.evalSpec(env, en.Expr, types.Typ[types.Bool])
		if err != nil {
			f.obligeSpecError("ensures", lbl, en, err)
			continue
		}
		if f.Ct.SplitPaths && len(st.Parts) > 1 && st.PartsOf == st.Reach.S {
			// one obligation per incoming path of the return block (smaller queries; together they cover Reach)
			for pi, part := range st.Parts {
				ps := *st
				ps.Reach = part
				o := f.oblige("ensures", fmt.Sprintf("%s/path%d", lbl, pi+1), &ps, v.T, ret.Pos(), "postcondition: "+en.Text)
				for j, r := range rs {
					if r.Tuple == nil {
						o.Inputs = append(o.Inputs, ModelVar{Name: fmt.Sprintf("result%d", j), Term: r.T.S, Sort: r.T.Sort, Type: shortType(r.Typ)})
					}
				}
				f.resultVars = o.Inputs
			}
			continue
		}
		o := f.oblige("ensures", lbl, st, v.T, ret.Pos(), "postcondition: "+en.Text)
		for j, r := range rs {
			if r.Tuple == nil {
				o.Inputs = append(o.Inputs, ModelVar{Name: fmt.Sprintf("result%d", j), Term: r.T.S, Sort: r.T.Sort, Type: shortType(r.Typ)})
			}
		}
		f.resultVars = o.Inputs
	}
	if !contractMentionsHeld(f.Ct) && f.usesLocks {
		f.oblige("lock-balance", "return", st, f.noLocksHeld(st), ret.Pos(), "all locks acquired by the function are released on return")
	}
}

func (f *FnVC) atPanic(st *State, p *ssa.Panic) {
	if !f.checks["panic"] {
		return
	}
	if f.Ct != nil && f.Ct.MayPanic {
		return
	}
	goal := boolLit(false)
	if f.Ct != nil && f.Ct.ErrPanics {
		// panics are contained by util.Recover iff the panic value is an error: decided on the static type of the value
		base := "panic-value@" + f.srcKey(p.Pos())
		f.ord[base]++
		f.Obls = append(f.Obls, &Obligation{Name: fmt.Sprintf("%s/%s#%d", f.Short, base, f.ord[base]), Kind: "structural", Func: f.Short,
			Structural: true, StructOK: panicValueIsError(p.X), SC: f.SC, Pos: f.posString(p.Pos()),
			Desc: "the value of an explicit panic implements error (util.Recover converts exactly those into a returned error)"})
		return
	}
	if f.Ct != nil && len(f.Ct.Panics) > 0 {
		env := f.bodyEnv(st)
		var cs []Term
		for _, c := range f.Ct.Panics {
			v, err := f.evalSpec(env, c.Expr, types.Typ[types.Bool])
			if err != nil {
				f.E.specError(c, err)
				continue
			}
			cs = append(cs, v.T)
		}
		goal = or(cs...)
	}
	f.oblige("panic", f.srcKey(p.Pos()), st, goal, p.Pos(), "explicit panic reachable")
}

// finish: structural checks on the contract itself.
func (f *FnVC) finish() {
	if f.Ct == nil {
		return
	}
	// postconditions are evaluated after the whole body so that they may refer to any labelled call site
	for _, r := range f.returns {
		f.atReturn(r.st, r.rs, r.ret, r.names)
	}
	f.frameObligation()
	for _, ac := range append(append([]*spec.AtCall{}, f.Ct.AtCalls...), f.Ct.AtStores...) {
		if f.acMatched[ac] == 0 {
			o := &Obligation{Name: fmt.Sprintf("%s/site@%s#%d", f.Short, ac.Pattern, ac.Ordinal), Kind: "site", Func: f.Short,
				Structural: true, StructOK: false, Desc: "contract call-site selector matches no call: " + ac.Pattern, SC: f.SC}
			f.Obls = append(f.Obls, o)
		}
	}
	for k, ls := range f.Ct.Loops {
		if k > len(f.loops) {
			o := &Obligation{Name: fmt.Sprintf("%s/loopspec#%d", f.Short, k), Kind: "site", Func: f.Short,
				Structural: true, StructOK: false, Desc: fmt.Sprintf("contract names loop %d but the function has %d loops", k, len(f.loops)), SC: f.SC}
			f.Obls = append(f.Obls, o)
		}
		_ = ls
	}
}

var _ = strings.TrimSpace
