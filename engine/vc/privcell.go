package vc

import (
	"go/types"
	"sort"

	"golang.org/x/tools/go/ssa"
)

// Private cells: a variable of the function under verification that closures capture (so go/ssa puts it on the heap), but
// that nothing else can reach: in the parent it is only loaded, stored and bound into closures; each binding closure is
// only ever deferred or called directly by the parent (its value is not stored, passed or captured), and inside the closure
// the variable is only loaded and stored. Such a cell can change only through the parent's own stores or while one of the
// closures that store to it runs. A call to anything else - however unknown its effects - cannot touch it.
// This is what makes `defer func() { if err != nil { c.closeOnWriteErr(err) } }()` leave the named result intact.

type privCell struct {
	alloc   *ssa.Alloc
	writers map[*ssa.Function]bool // binding closures that store to the cell
	binders map[*ssa.Function]bool
}

func (f *FnVC) privateCellInfo(al *ssa.Alloc) *privCell {
	if f.privInfo == nil {
		f.privInfo = map[*ssa.Alloc]*privCell{}
	}
	if pc, ok := f.privInfo[al]; ok {
		return pc
	}
	pc := computePrivCell(al)
	f.privInfo[al] = pc
	return pc
}

func computePrivCell(al *ssa.Alloc) *privCell {
	if !al.Heap || al.Referrers() == nil || al.Block() == nil || al.Block().Index != 0 {
		return nil
	}
	pc := &privCell{alloc: al, writers: map[*ssa.Function]bool{}, binders: map[*ssa.Function]bool{}}
	for _, ref := range *al.Referrers() {
		switch r := ref.(type) {
		case *ssa.Store:
			if r.Addr != ssa.Value(al) {
				return nil // the address itself is stored somewhere
			}
		case *ssa.UnOp, *ssa.DebugRef:
		case *ssa.MakeClosure:
			// the closure value may only be deferred or called by the parent
			if r.Referrers() == nil {
				return nil
			}
			for _, cr := range *r.Referrers() {
				switch c := cr.(type) {
				case *ssa.DebugRef:
				case *ssa.Defer:
					if c.Call.Value != ssa.Value(r) {
						return nil
					}
				case *ssa.Call:
					if c.Call.Value != ssa.Value(r) {
						return nil
					}
				default:
					return nil
				}
			}
			cf := r.Fn.(*ssa.Function)
			pc.binders[cf] = true
			for i, b := range r.Bindings {
				if b != ssa.Value(al) {
					continue
				}
				fv := cf.FreeVars[i]
				if fv.Referrers() == nil {
					continue
				}
				for _, fr := range *fv.Referrers() {
					switch x := fr.(type) {
					case *ssa.Store:
						if x.Addr != ssa.Value(fv) {
							return nil
						}
						pc.writers[cf] = true
					case *ssa.UnOp, *ssa.DebugRef:
					default:
						return nil // passed on, captured again, address arithmetic ...
					}
				}
			}
		default:
			return nil
		}
	}
	if len(pc.binders) == 0 {
		return nil
	}
	return pc
}

// privateKeeps: refs of the private cells that a call to callee (nil = unknown) cannot write.
func (f *FnVC) privateKeeps(callee *ssa.Function) []Term {
	var out []Term
	for al, r := range f.privRefs {
		pc := f.privateCellInfo(al)
		if pc == nil || (callee != nil && pc.writers[callee]) {
			continue
		}
		out = append(out, r)
	}
	for _, pf := range f.privFree {
		if callee != nil && pf.writers[callee] {
			continue
		}
		out = append(out, pf.ref)
	}
	sort.Slice(out, func(i, j int) bool { return out[i].S < out[j].S })
	return out
}

// Private free variables: the function under verification is itself a closure and fv is one of its captured variables.
// If the variable's address never escapes (in the parent it is only loaded, stored and bound into closures; in every
// closure that binds it, it is only loaded and stored), then only the parent's own code and those closures can change it.
// While this closure calls something else, the parent is not running and the closures can only run if the callee calls
// back into them; that callees do not re-enter the closures of the function that is calling them is an assumption of the
// engine (listed in DESIGN.md). Under it the variable keeps its value across calls with unknown effects.
func privateFreeVar(fn *ssa.Function, idx int) (ok bool, writers map[*ssa.Function]bool) {
	parent := fn.Parent()
	if parent == nil {
		return false, nil
	}
	var maker *ssa.MakeClosure
	for _, b := range parent.Blocks {
		for _, in := range b.Instrs {
			if mc, isMC := in.(*ssa.MakeClosure); isMC && mc.Fn == ssa.Value(fn) {
				if maker != nil {
					return false, nil
				}
				maker = mc
			}
		}
	}
	if maker == nil || idx >= len(maker.Bindings) {
		return false, nil
	}
	al, isAlloc := maker.Bindings[idx].(*ssa.Alloc)
	if !isAlloc || al.Referrers() == nil {
		return false, nil
	}
	writers = map[*ssa.Function]bool{}
	for _, ref := range *al.Referrers() {
		switch r := ref.(type) {
		case *ssa.Store:
			if r.Addr != ssa.Value(al) {
				return false, nil
			}
		case *ssa.UnOp, *ssa.DebugRef:
		case *ssa.MakeClosure:
			cf := r.Fn.(*ssa.Function)
			for i, b := range r.Bindings {
				if b != ssa.Value(al) {
					continue
				}
				fv := cf.FreeVars[i]
				if fv.Referrers() == nil {
					continue
				}
				for _, fr := range *fv.Referrers() {
					switch x := fr.(type) {
					case *ssa.Store:
						if x.Addr != ssa.Value(fv) {
							return false, nil
						}
						writers[cf] = true
					case *ssa.UnOp, *ssa.DebugRef:
					default:
						return false, nil
					}
				}
			}
		default:
			return false, nil
		}
	}
	return true, writers
}

type privFreeRec struct {
	ref     Term
	writers map[*ssa.Function]bool
}

// notePrivateFreeVars records, at function entry, the captured variables of a closure under verification that are private.
func (f *FnVC) notePrivateFreeVars() {
	for i, fv := range f.Fn.FreeVars {
		pt, isPtr := fv.Type().Underlying().(*types.Pointer)
		if !isPtr {
			continue
		}
		ok, writers := privateFreeVar(f.Fn, i)
		if !ok {
			continue
		}
		v, have := f.vals[vkey{fv, 0}]
		if !have || v.T.Sort != SRef {
			continue
		}
		// a struct-valued variable occupies its cell and the cells of its nested aggregates
		for _, r := range f.objectRefs(v.T, pt.Elem(), 0) {
			f.privFree = append(f.privFree, privFreeRec{ref: r, writers: writers})
		}
	}
}
