package vc

func replayImpl(e *Engine, o *Outcome, repo string) (bool, map[string]any) {
	return false, map[string]any{"attempted": false, "reason": "no replay harness for this function shape"}
}
