package vc

import (
	"fmt"
	"go/ast"
	"go/token"
	"go/types"
	"os"
	"path/filepath"
	"sort"
	"strings"

	"golang.org/x/tools/go/packages"
	"golang.org/x/tools/go/ssa"
	"golang.org/x/tools/go/ssa/ssautil"

	"verif/engine/spec"
)

// Engine holds the loaded program and all contracts.
type Engine struct {
	Prog       *ssa.Program
	Pkgs       []*packages.Package
	SSAPkgs    map[string]*ssa.Package
	TypesPkgs  map[string]*types.Package
	Fset       *token.FileSet
	ModulePath string
	RepoDir    string

	Contracts   map[string]*spec.FuncContract
	ContractPkg map[*spec.FuncContract]*types.Package
	SpecFns     map[string]*spec.SpecFn
	specFnPkg   map[string]*types.Package
	UFns        map[string]*spec.SpecFn
	GhostFields map[string]string
	Census      []*spec.Census
	Sweeps      []*spec.Sweep
	CodecPairs  []*spec.CodecPairs
	verNums     map[string]int64
	Regexes     []*RegexDecl
	Structs     []*StructDecl
	guards      map[string]*guardInfo
	monitors    map[string][]*spec.Monitor
	pendGuards  []*spec.Guard
	Files       []*spec.File

	strCache  map[*FnVC]map[string]Term
	strLits   map[string]string
	closures  map[closureKey]*closureInfo
	modsets   map[*ssa.Function]*modset
	implCache map[string][]*ssa.Function
	exemptFreshArgs bool // set while a function body is scanned for its inferred frame
	moduleTypes []types.Type
	srcFiles  map[string][]byte
	SpecErrors []string
	funcsByKey map[string]*ssa.Function
	sentinels  map[*ssa.Global]bool
}

// Load loads the packages (patterns relative to repoDir) with the verif tag and builds SSA.
func Load(repoDir, modulePath string, patterns []string) (*Engine, error) {
	cfg := &packages.Config{Mode: packages.LoadAllSyntax, Dir: repoDir, BuildFlags: []string{"-tags=verif"}}
	pkgs, err := packages.Load(cfg, patterns...)
	if err != nil {
		return nil, err
	}
	var errs []string
	packages.Visit(pkgs, nil, func(p *packages.Package) {
		for _, e := range p.Errors {
			errs = append(errs, e.Error())
		}
	})
	if len(errs) > 0 {
		return nil, fmt.Errorf("package errors: %s", strings.Join(errs, "; "))
	}
	prog, _ := ssautil.AllPackages(pkgs, ssa.InstantiateGenerics|ssa.GlobalDebug)
	prog.Build()
	e := &Engine{Prog: prog, Pkgs: pkgs, Fset: prog.Fset, ModulePath: modulePath, RepoDir: repoDir,
		SSAPkgs: map[string]*ssa.Package{}, TypesPkgs: map[string]*types.Package{},
		Contracts: map[string]*spec.FuncContract{}, ContractPkg: map[*spec.FuncContract]*types.Package{},
		SpecFns: map[string]*spec.SpecFn{}, specFnPkg: map[string]*types.Package{}, UFns: map[string]*spec.SpecFn{},
		GhostFields: map[string]string{}, guards: map[string]*guardInfo{}, monitors: map[string][]*spec.Monitor{},
		strCache: map[*FnVC]map[string]Term{}, strLits: map[string]string{}, closures: map[closureKey]*closureInfo{},
		modsets: map[*ssa.Function]*modset{}, implCache: map[string][]*ssa.Function{}, srcFiles: map[string][]byte{},
		funcsByKey: map[string]*ssa.Function{}}
	for _, p := range prog.AllPackages() {
		e.SSAPkgs[p.Pkg.Path()] = p
		e.TypesPkgs[p.Pkg.Path()] = p.Pkg
		if strings.HasPrefix(p.Pkg.Path(), modulePath) {
			for _, m := range p.Members {
				if t, ok := m.(*ssa.Type); ok {
					e.moduleTypes = append(e.moduleTypes, t.Type())
				}
			}
		}
	}
	sort.Slice(e.moduleTypes, func(i, j int) bool { return e.moduleTypes[i].String() < e.moduleTypes[j].String() })
	// contract files inside loaded module packages
	packages.Visit(pkgs, nil, func(p *packages.Package) {
		if !strings.HasPrefix(p.PkgPath, modulePath) {
			return
		}
		for i, file := range p.Syntax {
			name := p.CompiledGoFiles[i]
			if !strings.HasPrefix(filepath.Base(name), "zz_verif_") {
				continue
			}
			_ = file
			src, err := os.ReadFile(name)
			if err != nil {
				continue
			}
			sf, err := spec.ParseFile(strings.TrimPrefix(name, repoDir+"/"), p.PkgPath, string(src))
			if err != nil {
				e.SpecErrors = append(e.SpecErrors, err.Error())
				continue
			}
			e.addFile(sf, p.Types)
		}
	})
	e.resolveClosureAliases()
	e.expandSweeps()
	return e, nil
}

// LoadTrusted reads the assumed contracts of dependencies.
func (e *Engine) LoadTrusted(dir string) error {
	files, _ := filepath.Glob(filepath.Join(dir, "*.spec"))
	sort.Strings(files)
	for _, fn := range files {
		src, err := os.ReadFile(fn)
		if err != nil {
			return err
		}
		sf, err := spec.ParseFile(fn, "", string(src))
		if err != nil {
			return err
		}
		e.addFile(sf, nil)
	}
	return nil
}

func (e *Engine) addFile(sf *spec.File, pkg *types.Package) {
	e.Files = append(e.Files, sf)
	for _, ct := range sf.Funcs {
		key := ct.Target
		if pkg != nil {
			key = qualify(ct.Target, pkg.Path())
		}
		ct.Key = key
		if old, dup := e.Contracts[key]; dup {
			e.SpecErrors = append(e.SpecErrors, fmt.Sprintf("%s:%d: duplicate contract for %s (also %s:%d)", ct.File, ct.Line, key, old.File, old.Line))
		}
		e.Contracts[key] = ct
		e.ContractPkg[ct] = pkg
	}
	for _, s := range sf.SpecFns {
		if s.Text == "uninterpreted" {
			e.UFns[s.Name] = s
		} else {
			e.SpecFns[s.Name] = s
		}
		e.specFnPkg[s.Name] = pkg
	}
	for k, v := range sf.Ghosts {
		e.GhostFields[k] = v
	}
	for _, g := range sf.Guards {
		if pkg != nil {
			if err := e.resolveGuard(g, pkg.Scope(), func(t types.Type) string { return (&TypeEnv{}).structName(t) }); err != nil {
				e.SpecErrors = append(e.SpecErrors, err.Error())
			}
		}
	}
	for _, m := range sf.Monitors {
		if pkg != nil {
			if obj := pkg.Scope().Lookup(m.Struct); obj != nil {
				n := (&TypeEnv{}).structName(obj.Type())
				e.monitors[n] = append(e.monitors[n], m)
			} else {
				e.SpecErrors = append(e.SpecErrors, fmt.Sprintf("monitor: no type %s", m.Struct))
			}
		}
	}
	e.Census = append(e.Census, sf.Census...)
	e.Sweeps = append(e.Sweeps, sf.Sweeps...)
	e.CodecPairs = append(e.CodecPairs, sf.CodecPairs...)
	for _, s := range sf.Structs {
		e.Structs = append(e.Structs, &StructDecl{Kind: s.Kind, Args: s.Args, Props: s.Props, Pkg: s.Pkg, File: s.File, Line: s.Line})
	}
	for _, r := range sf.Regexes {
		e.Regexes = append(e.Regexes, &RegexDecl{Global: r.Global, Spec: r.Spec, Props: r.Props, Pkg: r.Pkg, File: r.File, Line: r.Line})
	}
}

// qualify turns a short target into the canonical key: "(*T).M" -> "(*pkg/path.T).M", "F" -> "pkg/path.F".
func qualify(target, pkgPath string) string {
	suffix := ""
	if i := strings.Index(target, "$"); i >= 0 {
		suffix = target[i:]
		target = target[:i]
	}
	if strings.HasPrefix(target, "(") {
		end := strings.Index(target, ")")
		recv := target[1:end]
		star := ""
		if strings.HasPrefix(recv, "*") {
			star, recv = "*", recv[1:]
		}
		if !strings.Contains(recv, ".") {
			recv = pkgPath + "." + recv
		}
		return "(" + star + recv + ")" + target[end+1:] + suffix
	}
	if i := strings.LastIndex(target, "."); i >= 0 {
		// "pkgname.Func": drop the package name, use the path
		target = target[i+1:]
	}
	return pkgPath + "." + target + suffix
}

func (e *Engine) specError(c spec.Clause, err error) {
	msg := fmt.Sprintf("%s:%d: %v  [in: %s]", c.File, c.Line, err, c.Text)
	for _, x := range e.SpecErrors {
		if x == msg {
			return
		}
	}
	e.SpecErrors = append(e.SpecErrors, msg)
}

// findPackage resolves a package *name* as imported by pkg (or any loaded package with that name).
func (e *Engine) findPackage(from *types.Package, name string, member string) *types.Package {
	if from != nil {
		for _, imp := range from.Imports() {
			if imp.Name() == name && (member == "" || imp.Scope().Lookup(member) != nil) {
				return imp
			}
		}
		if from.Name() == name {
			return from
		}
	}
	var best *types.Package
	for path, p := range e.TypesPkgs {
		if p.Name() == name && (member == "" || p.Scope().Lookup(member) != nil) {
			if best == nil || len(path) < len(best.Path()) || (len(path) == len(best.Path()) && path < best.Path()) {
				best = p
			}
		}
	}
	return best
}

func (e *Engine) globalOf(v *types.Var) *ssa.Global {
	if v.Pkg() == nil {
		return nil
	}
	sp := e.SSAPkgs[v.Pkg().Path()]
	if sp == nil {
		return nil
	}
	g, _ := sp.Members[v.Name()].(*ssa.Global)
	return g
}

func (e *Engine) pkgOfContract(ct *spec.FuncContract, fn *ssa.Function) *types.Package {
	if p := e.ContractPkg[ct]; p != nil {
		return p
	}
	if fn != nil && fn.Pkg != nil {
		return fn.Pkg.Pkg
	}
	// trusted: package named in the key
	key := ct.Key
	key = strings.TrimPrefix(key, "(")
	key = strings.TrimPrefix(key, "*")
	if i := strings.LastIndex(key, "."); i >= 0 {
		key = key[:i]
		if j := strings.Index(key, ")"); j >= 0 {
			key = key[:j]
		}
		if k := strings.LastIndex(key, "."); k >= 0 && strings.Contains(ct.Key, ")") {
			key = key[:k]
		}
	}
	return e.TypesPkgs[key]
}

// srcText returns a normalised snippet of the source at pos (used in stable obligation names).
func (e *Engine) srcText(pos token.Pos) string {
	if !pos.IsValid() {
		return ""
	}
	p := e.Fset.Position(pos)
	src, ok := e.srcFiles[p.Filename]
	if !ok {
		src, _ = os.ReadFile(p.Filename)
		e.srcFiles[p.Filename] = src
	}
	if p.Offset >= len(src) {
		return ""
	}
	// the enclosing expression text: walk left to the start of the operand, right to the matching bracket
	i := p.Offset
	start := i
	for start > 0 {
		c := src[start-1]
		if c == '_' || c == '.' || c == ']' || c == ')' || (c >= '0' && c <= '9') || (c >= 'a' && c <= 'z') || (c >= 'A' && c <= 'Z') {
			if c == ']' || c == ')' {
				// skip balanced
				depth := 0
				j := start - 1
				for j >= 0 {
					if src[j] == ']' || src[j] == ')' {
						depth++
					} else if src[j] == '[' || src[j] == '(' {
						depth--
						if depth == 0 {
							break
						}
					}
					j--
				}
				if j < 0 {
					break
				}
				start = j
				continue
			}
			start--
			continue
		}
		break
	}
	end := i
	depth := 0
	for end < len(src) {
		c := src[end]
		if c == '[' || c == '(' {
			depth++
		} else if c == ']' || c == ')' {
			depth--
			if depth <= 0 {
				end++
				break
			}
		} else if c == '\n' || (depth == 0 && (c == ' ' || c == ',' || c == ';')) {
			break
		}
		end++
	}
	t := strings.Join(strings.Fields(string(src[start:end])), "")
	if len(t) > 48 {
		t = t[:48]
	}
	return t
}

// FuncByKey finds the ssa function for a contract key.
func (e *Engine) FuncByKey(key string) *ssa.Function {
	if len(e.funcsByKey) == 0 {
		for fn := range ssautil.AllFunctions(e.Prog) {
			if fn.Synthetic != "" && !strings.Contains(fn.Synthetic, "instance") {
				continue
			}
			e.funcsByKey[FuncKey(fn)] = fn
		}
	}
	return e.funcsByKey[key]
}

var _ = ast.Inspect

func (e *Engine) allFuncs() map[*ssa.Function]bool { return ssautil.AllFunctions(e.Prog) }
