package vc

import (
	"fmt"
	"go/types"
	"os"
	"sort"
	"strings"
)

// heldRec: a mutex (field lockIdx of struct object base) this function currently holds exclusively.
type heldRec struct {
	lock    Term
	sname   string
	lockIdx int
	base    Term
	typ     types.Type // struct type
}

// keepRec: cell idx of heap component comp is not affected by a havoc (it is protected by a lock held exclusively by
// the executing goroutine: no other goroutine may write it, and a callee of ours cannot acquire the lock again).
type keepRec struct {
	comp string
	idx  Term
}

// guardedKeeps lists the cells protected by the exclusively held locks of st.
func (f *FnVC) guardedKeeps(st *State, skipComps map[string]bool) []keepRec {
	var out []keepRec
	if os.Getenv("GOVC_DEBUG") != "" {
		var ks []string
		for k := range skipComps {
			ks = append(ks, k)
		}
		sort.Strings(ks)
		fmt.Fprintf(os.Stderr, "guardedKeeps in %s: held=%d skip=%v\n", f.Short, len(st.HeldW), ks)
	}
	for _, h := range st.HeldW {
		gi := f.E.guards[h.sname]
		if gi == nil {
			continue
		}
		stt, ok := unalias(h.typ).Underlying().(*types.Struct)
		if !ok {
			continue
		}
		var fis []int
		for fi, li := range gi.lockOf {
			if li == h.lockIdx {
				fis = append(fis, fi)
			}
		}
		sort.Ints(fis)
		for _, fi := range fis {
			ft := stt.Field(fi).Type()
			if isAggregate(ft) {
				continue
			}
			name := fieldComp(h.sname, fi)
			if skipComps[name] {
				continue
			}
			out = append(out, keepRec{name, h.base})
			cur := sel(f.comp(st, name, arraySort(SRef, f.TE.Sort(ft))), h.base)
			switch u := unalias(ft).Underlying().(type) {
			case *types.Slice:
				ec := elemComp(f.TE.Sort(u.Elem()))
				if !skipComps[ec] {
					f.comp(st, ec, arraySort(SRef, arraySort(BV(64), f.TE.Sort(u.Elem()))))
					out = append(out, keepRec{ec, f.SC.Define("keepref", app("lref", SRef, cur))})
				}
			case *types.Map:
				has, val, ln, ks, vs := f.mapComps(u)
				f.comp(st, has, arraySort(SRef, arraySort(ks, SBool)))
				f.comp(st, val, arraySort(SRef, arraySort(ks, vs)))
				f.comp(st, ln, arraySort(SRef, BV(64)))
				for _, c := range []string{has, val, ln} {
					if !skipComps[c] {
						out = append(out, keepRec{c, cur})
					}
				}
			}
		}
	}
	return out
}

// applyKeeps restores, after a partial havoc, the cells that the havoc cannot have affected.
func (f *FnVC) applyKeeps(st, before *State, locals []Term, keeps []keepRec) {
	if st.Epoch != before.Epoch {
		return // handled lazily by epochTerm through epochPrev
	}
	var names []string
	for name, t := range st.Heap {
		if old, ok := before.Heap[name]; (!ok || old.S != t.S) && strings.HasPrefix(t.Sort, "(Array Int ") && name != heldComp {
			names = append(names, name)
		}
	}
	sort.Strings(names)
	for _, name := range names {
		old := f.comp(before, name, st.Heap[name].Sort)
		cur := st.Heap[name]
		changed := false
		for _, r := range locals {
			cur = store(cur, r, sel(old, r))
			changed = true
		}
		for _, k := range keeps {
			if k.comp == name {
				cur = store(cur, k.idx, sel(old, k.idx))
				changed = true
			}
		}
		if changed {
			st.Heap[name] = f.SC.Define("H_"+name, cur)
		}
	}
}

func (st *State) pushHeld(h heldRec) { st.HeldW = append(st.HeldW, h) }

func (st *State) popHeld(lock Term) {
	for i := len(st.HeldW) - 1; i >= 0; i-- {
		if st.HeldW[i].lock.S == lock.S {
			st.HeldW = append(append([]heldRec{}, st.HeldW[:i]...), st.HeldW[i+1:]...)
			return
		}
	}
}

// modsetCompNames: heap component names a mod-set names explicitly.
func (f *FnVC) modsetCompNames(ms *modset) map[string]bool {
	out := map[string]bool{}
	for _, k := range ms.comps {
		switch k.kind {
		case "F":
			out[fieldComp(f.TE.StructInfo(k.t).Name, k.field)] = true
		case "E":
			out[elemComp(f.TE.Sort(k.t))] = true
		case "C":
			out[cellComp(f.TE.Sort(k.t))] = true
		case "M":
			if mt, ok := unalias(k.t).Underlying().(*types.Map); ok {
				has, val, ln, _, _ := f.mapComps(mt)
				out[has], out[val], out[ln] = true, true, true
			}
		case "O":
			if stt, ok := unalias(k.t).Underlying().(*types.Struct); ok {
				si := f.TE.StructInfo(k.t)
				for i := 0; i < stt.NumFields(); i++ {
					out[fieldComp(si.Name, i)] = true
				}
			}
		}
	}
	return out
}
