package vc

import (
	"go/types"

	"golang.org/x/tools/go/ssa"
)

// argTypeKeys: what a callee outside the analysed code may write through its arguments, by static argument type:
// pointers to module structs -> any object of that type, slices -> elements of that element type, other pointers -> cells.
// (Type-level, so callers of the caller inherit it soundly.)
func argTypeKeys(c *ssa.CallCommon, ms *modset) {
	add := func(t types.Type) {
		switch u := unalias(t).Underlying().(type) {
		case *types.Pointer:
			el := u.Elem()
			if isStruct(el) {
				ms.add(modKey{kind: "O", t: el})
			} else if at, ok := unalias(el).Underlying().(*types.Array); ok {
				ms.add(modKey{kind: "E", t: at.Elem()})
			} else {
				ms.add(modKey{kind: "C", t: el})
			}
		case *types.Slice:
			ms.add(modKey{kind: "E", t: u.Elem()})
		case *types.Map:
			ms.add(modKey{kind: "M", t: u})
		}
	}
	for _, a := range c.Args {
		root := a
		if mi, ok := root.(*ssa.MakeInterface); ok {
			root = mi.X
		}
		if al, ok := root.(*ssa.Alloc); ok && localOnlyAlloc(al) {
			continue // a variable of the calling function that never leaves it: writes to it are invisible outside
		}
		t := a.Type()
		if mi, ok := a.(*ssa.MakeInterface); ok {
			t = mi.X.Type()
		}
		add(t)
	}
}

// localOnlyAlloc: the allocation is only loaded, stored to, or passed as a call argument - its address is never
// stored, returned or captured, so no caller of the allocating function can observe it.
func localOnlyAlloc(al *ssa.Alloc) bool {
	if al.Referrers() == nil {
		return false
	}
	for _, r := range *al.Referrers() {
		switch x := r.(type) {
		case *ssa.UnOp, *ssa.DebugRef, *ssa.FieldAddr, *ssa.IndexAddr:
		case *ssa.Store:
			if x.Addr != ssa.Value(al) {
				return false
			}
		case *ssa.Call:
		case *ssa.MakeInterface:
			// boxed to be passed on (e.g. errors.As(err, &target)): accept only if the interface value is just a call argument
			if x.Referrers() != nil {
				for _, rr := range *x.Referrers() {
					if _, isCall := rr.(*ssa.Call); !isCall {
						if _, isDbg := rr.(*ssa.DebugRef); !isDbg {
							return false
						}
					}
				}
			}
		default:
			return false
		}
	}
	return true
}
