package vc

import (
	"go/types"

	"golang.org/x/tools/go/ssa"
)

// argTypeKeys: what a callee outside the analysed code may write through its arguments, by static argument type:
// pointers to module structs -> any object of that type, slices -> elements of that element type, other pointers -> cells.
// (Type-level, so callers of the caller inherit it soundly.)
func argTypeKeys(c *ssa.CallCommon, ms *modset) {
	add := func(t types.Type) {
		switch u := unalias(t).Underlying().(type) {
		case *types.Pointer:
			el := u.Elem()
			if isStruct(el) {
				ms.add(modKey{kind: "O", t: el})
			} else if at, ok := unalias(el).Underlying().(*types.Array); ok {
				ms.add(modKey{kind: "E", t: at.Elem()})
			} else {
				ms.add(modKey{kind: "C", t: el})
			}
		case *types.Slice:
			ms.add(modKey{kind: "E", t: u.Elem()})
		case *types.Map:
			ms.add(modKey{kind: "M", t: u})
		}
	}
	for _, a := range c.Args {
		t := a.Type()
		if mi, ok := a.(*ssa.MakeInterface); ok {
			t = mi.X.Type()
		}
		add(t)
	}
}
