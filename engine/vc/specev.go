package vc

import (
	"os"
	"fmt"
	"go/constant"
	"go/token"
	"go/types"
	"strconv"
	"strings"

	"golang.org/x/tools/go/ssa"

	"verif/engine/spec"
)

// SEnv is the evaluation environment of a specification expression.
type SEnv struct {
	f     *FnVC
	names map[string]Val
	cur   *State
	old   *State
	pkg   *types.Package
	dyn   map[string]string // static dynamic-type knowledge for interface-typed names
	depth int
	// cells: variables that live in memory cells (captured by closures): the name denotes the content of the cell in
	// the state the expression is evaluated in; &name denotes the cell
	cells map[string]Val
}

func (env *SEnv) child() *SEnv {
	n := *env
	n.names = make(map[string]Val, len(env.names))
	for k, v := range env.names {
		n.names[k] = v
	}
	return &n
}

var untypedNil = types.Typ[types.UntypedNil]

func (f *FnVC) specType(env *SEnv, text string) (types.Type, error) {
	text = strings.TrimSpace(text)
	switch text {
	case "int":
		return types.Typ[types.Int], nil
	case "int8":
		return types.Typ[types.Int8], nil
	case "int16":
		return types.Typ[types.Int16], nil
	case "int32", "rune":
		return types.Typ[types.Int32], nil
	case "int64":
		return types.Typ[types.Int64], nil
	case "uint":
		return types.Typ[types.Uint], nil
	case "uint8", "byte":
		return types.Typ[types.Uint8], nil
	case "uint16":
		return types.Typ[types.Uint16], nil
	case "uint32":
		return types.Typ[types.Uint32], nil
	case "uint64":
		return types.Typ[types.Uint64], nil
	case "bool":
		return types.Typ[types.Bool], nil
	case "string", "bytes":
		return types.Typ[types.String], nil
	case "ref":
		return types.Typ[types.UnsafePointer], nil
	case "error":
		return types.Universe.Lookup("error").Type(), nil
	}
	if strings.HasPrefix(text, "bv") {
		if w, err := strconv.Atoi(text[2:]); err == nil && w > 0 {
			return WideBV(w), nil
		}
	}
	if strings.HasPrefix(text, "*") {
		t, err := f.specType(env, text[1:])
		if err != nil {
			return nil, err
		}
		return types.NewPointer(t), nil
	}
	if strings.HasPrefix(text, "[]") {
		t, err := f.specType(env, text[2:])
		if err != nil {
			return nil, err
		}
		return types.NewSlice(t), nil
	}
	if pkgName, name, ok := strings.Cut(text, "."); ok {
		if p := f.E.findPackage(env.pkg, pkgName, name); p != nil {
			if o := p.Scope().Lookup(name); o != nil {
				return o.Type(), nil
			}
		}
		return nil, fmt.Errorf("unknown type %s", text)
	}
	if env.pkg != nil {
		if o := env.pkg.Scope().Lookup(text); o != nil {
			if _, ok := o.(*types.TypeName); ok {
				return o.Type(), nil
			}
		}
	}
	return nil, fmt.Errorf("unknown type %s", text)
}

func isLiteral(e *spec.Expr) bool {
	if e.Op == "lit" {
		return true
	}
	if e.Op == "un" && (e.Tok == "-" || e.Tok == "^") {
		return isLiteral(e.Args[0])
	}
	if e.Op == "id" && e.Tok == "nil" {
		return true
	}
	if e.Op == "bin" {
		switch e.Tok {
		case "+", "-", "*", "<<", ">>", "|", "&":
			return isLiteral(e.Args[0]) && isLiteral(e.Args[1])
		}
	}
	return false
}

func (f *FnVC) evalSpec(env *SEnv, e *spec.Expr, want types.Type) (Val, error) {
	switch e.Op {
	case "lit":
		return f.specLit(e.Tok, want)
	case "str":
		return Val{T: f.strConst(e.Tok), Typ: types.Typ[types.String]}, nil
	case "id":
		return f.specIdent(env, e, want)
	case "sel":
		return f.specSel(env, e, want)
	case "ghost":
		x, err := f.evalSpec(env, e.Args[0], nil)
		if err != nil {
			return Val{}, err
		}
		gt, ok := f.E.GhostFields[e.Tok]
		if !ok {
			return Val{}, fmt.Errorf("undeclared ghost field @%s", e.Tok)
		}
		t, err := f.specType(env, gt)
		if err != nil {
			return Val{}, err
		}
		sort := f.TE.Sort(t)
		h := f.comp(env.cur, "G$"+e.Tok, arraySort(SRef, sort))
		return Val{T: sel(h, f.refOf(x)), Typ: t}, nil
	case "idx":
		return f.specIndex(env, e)
	case "slice":
		return f.specSlice(env, e)
	case "call":
		return f.specCall(env, e, want)
	case "un":
		return f.specUnary(env, e, want)
	case "bin":
		return f.specBinary(env, e, want)
	case "forall", "exists":
		t, err := f.specType(env, e.Type)
		if err != nil {
			return Val{}, err
		}
		ch := env.child()
		f.qcount++
		name := fmt.Sprintf("q_%s_%d", sanitize(e.Tok), f.qcount)
		sort := f.TE.Sort(t)
		ch.names[e.Tok] = Val{T: Term{name, sort}, Typ: t}
		body, err := f.evalSpec(ch, e.Args[0], types.Typ[types.Bool])
		if err != nil {
			return Val{}, err
		}
		return Val{T: Term{fmt.Sprintf("(%s ((%s %s)) %s)", e.Op, name, sort, body.T.S), SBool}, Typ: types.Typ[types.Bool]}, nil
	}
	return Val{}, fmt.Errorf("cannot evaluate %s", e)
}

func (f *FnVC) refOf(x Val) Term {
	switch x.T.Sort {
	case SIface:
		return app("iref", SRef, x.T)
	case SSlice:
		return app("lref", SRef, x.T)
	}
	return x.T
}

func (f *FnVC) specLit(tok string, want types.Type) (Val, error) {
	v, err := strconv.ParseUint(tok, 0, 64)
	if err != nil {
		return Val{}, fmt.Errorf("bad literal %s", tok)
	}
	if want == nil || !isInteger(want) {
		want = types.Typ[types.Int]
	}
	return Val{T: bvLit(v, bvWidth(f.TE.Sort(want))), Typ: want}, nil
}

func (f *FnVC) specIdent(env *SEnv, e *spec.Expr, want types.Type) (Val, error) {
	switch e.Tok {
	case "true":
		return Val{T: boolLit(true), Typ: types.Typ[types.Bool]}, nil
	case "false":
		return Val{T: boolLit(false), Typ: types.Typ[types.Bool]}, nil
	case "nil":
		if want != nil {
			return Val{T: f.TE.Zero(want), Typ: want}, nil
		}
		return Val{T: Term{"0", SRef}, Typ: untypedNil}, nil
	case "none":
		return Val{T: Term{"0", SInt}, Typ: lockStateType}, nil
	case "rlocked":
		return Val{T: Term{"1", SInt}, Typ: lockStateType}, nil
	case "wlocked":
		return Val{T: Term{"2", SInt}, Typ: lockStateType}, nil
	}
	if cell, ok := env.cells[e.Tok]; ok {
		if pt, ok := unalias(cell.Typ).Underlying().(*types.Pointer); ok {
			f.lintLocal(e.Tok)
			return f.loadAt(env.cur, cell, pt.Elem()), nil
		}
	}
	if v, ok := env.names[e.Tok]; ok {
		f.lintLocal(e.Tok)
		return v, nil
	}
	// package-level constant / variable
	if env.pkg != nil {
		if o := env.pkg.Scope().Lookup(e.Tok); o != nil {
			return f.specObject(env, o, want)
		}
	}
	// a local variable of the function that is not in scope (not yet declared) at this program point: its value is
	// arbitrary here, so whatever is claimed must hold for every value (conservative)
	if t := f.localVarType(e.Tok); t != nil {
		return f.freshVal("outofscope_"+e.Tok, t), nil
	}
	return Val{}, fmt.Errorf("unknown identifier %s", e.Tok)
}

// localVarType finds the declared type of a named local variable of the function under verification.
func (f *FnVC) localVarType(name string) types.Type {
	for _, b := range f.Fn.Blocks {
		for _, in := range b.Instrs {
			switch x := in.(type) {
			case *ssa.Alloc:
				if x.Comment == name {
					return x.Type().(*types.Pointer).Elem()
				}
			case *ssa.Phi:
				if x.Comment == name {
					return x.Type()
				}
			case *ssa.DebugRef:
				if o := x.Object(); o != nil && o.Name() == name {
					if x.IsAddr {
						if p, ok := unalias(x.X.Type()).Underlying().(*types.Pointer); ok {
							return p.Elem()
						}
					}
					return x.X.Type()
				}
			}
		}
	}
	return nil
}

var lockStateType = types.NewNamed(types.NewTypeName(0, nil, "lockstate", nil), types.Typ[types.UnsafePointer], nil)

func (f *FnVC) specObject(env *SEnv, o types.Object, want types.Type) (Val, error) {
	switch x := o.(type) {
	case *types.Const:
		t := x.Type()
		if b, ok := t.Underlying().(*types.Basic); ok && b.Info()&types.IsUntyped != 0 {
			if want != nil {
				t = want
			} else {
				t = types.Default(t)
			}
		}
		switch x.Val().Kind() {
		case constant.Int:
			w := bvWidth(f.TE.Sort(t))
			if w == 0 {
				return Val{}, fmt.Errorf("constant %s has non-integer type", x.Name())
			}
			if i, ok := constant.Int64Val(x.Val()); ok {
				return Val{T: bvLit(uint64(i), w), Typ: t}, nil
			}
			u, _ := constant.Uint64Val(x.Val())
			return Val{T: bvLit(u, w), Typ: t}, nil
		case constant.Bool:
			return Val{T: boolLit(constant.BoolVal(x.Val())), Typ: t}, nil
		case constant.String:
			return Val{T: f.strConst(constant.StringVal(x.Val())), Typ: t}, nil
		}
	case *types.Var:
		if g := f.E.globalOf(x); g != nil {
			gv := f.globalVal(g)
			out := f.loadAt(env.cur, gv, x.Type())
			if f.E.errSentinel(g) && out.T.Sort == SIface {
				f.SC.Assert(not(eq(out.T, Term{"nil_iface", SIface})).S)
			}
			return out, nil
		}
	}
	return Val{}, fmt.Errorf("cannot use %s in a specification", o.Name())
}

func (f *FnVC) specSel(env *SEnv, e *spec.Expr, want types.Type) (Val, error) {
	// package-qualified name
	if b := e.Args[0]; b.Op == "id" {
		if _, isName := env.names[b.Tok]; !isName {
			if p := f.E.findPackage(env.pkg, b.Tok, e.Tok); p != nil {
				o := p.Scope().Lookup(e.Tok)
				if o == nil {
					return Val{}, fmt.Errorf("no %s.%s", b.Tok, e.Tok)
				}
				return f.specObject(env, o, want)
			}
		}
	}
	x, err := f.evalSpec(env, e.Args[0], nil)
	if err != nil {
		return Val{}, err
	}
	if x.Tuple != nil {
		i, err := strconv.Atoi(e.Tok)
		if err != nil || i >= len(x.Tuple) {
			return Val{}, fmt.Errorf("bad tuple selector %s", e.Tok)
		}
		return x.Tuple[i], nil
	}
	return f.specField(env, x, e.Tok)
}

func (f *FnVC) specField(env *SEnv, x Val, name string) (Val, error) {
	t := unalias(x.Typ)
	if p, ok := t.Underlying().(*types.Pointer); ok {
		st, ok := unalias(p.Elem()).Underlying().(*types.Struct)
		if !ok {
			return Val{}, fmt.Errorf("field %s of non-struct pointer %s", name, shortType(t))
		}
		si := f.TE.StructInfo(p.Elem())
		idx, path := findField(st, name)
		if idx < 0 {
			return Val{}, fmt.Errorf("no field %s in %s", name, shortType(p.Elem()))
		}
		if len(path) > 1 { // promoted through embedded structs
			cur := x
			for _, step := range path[:len(path)-1] {
				v, err := f.specField(env, cur, step)
				if err != nil {
					return Val{}, err
				}
				cur = v
			}
			return f.specField(env, cur, name)
		}
		ft := st.Field(idx).Type()
		if isArray(ft) {
			// array-typed fields denote their value
			return f.loadObj(env.cur, f.fa(si.Name, idx, x.T), ft), nil
		}
		if isAggregate(ft) {
			return Val{T: f.fa(si.Name, idx, x.T), Typ: types.NewPointer(ft)}, nil
		}
		h := f.comp(env.cur, fieldComp(si.Name, idx), arraySort(SRef, f.TE.Sort(ft)))
		out := Val{T: sel(h, x.T), Typ: ft}
		// slices and strings read from the heap are well-formed Go values (closed terms only: not under a binder)
		if (out.T.Sort == SSlice || out.T.Sort == SStr) && !strings.Contains(out.T.S, "q_") {
			key := "ti:" + out.T.S
			if !f.tiDone[key] {
				if f.tiDone == nil {
					f.tiDone = map[string]bool{}
				}
				f.tiDone[key] = true
				f.typeInvariant(nil, out)
			}
		}
		// references read from the heap by a contract are objects that exist in that heap state (not "from the future"):
		// without this a later allocation could alias a field the code itself never loads
		if (out.T.Sort == SRef || out.T.Sort == SIface || out.T.Sort == SSlice) && !strings.Contains(out.T.S, "q_") && env.cur != nil {
			key := "kr:" + out.T.S
			if !f.tiDone[key] {
				if f.tiDone == nil {
					f.tiDone = map[string]bool{}
				}
				f.tiDone[key] = true
				r := out.T
				switch out.T.Sort {
				case SIface:
					r = app("iref", SRef, out.T)
				case SSlice:
					r = app("lref", SRef, out.T)
				}
				a := f.comp(env.cur, "alloc", SInt)
				f.SC.Assert(fmt.Sprintf("(<= %s %s)", r.S, a.S))
			}
		}
		return out, nil
	}
	if st, ok := t.Underlying().(*types.Struct); ok {
		si := f.TE.StructInfo(t)
		f.TE.declareStruct(si)
		idx, _ := findField(st, name)
		if idx < 0 {
			return Val{}, fmt.Errorf("no field %s in %s", name, shortType(t))
		}
		return Val{T: app(fmt.Sprintf("f%d_%s", idx, si.Name), si.Fields[idx], x.T), Typ: st.Field(idx).Type()}, nil
	}
	return Val{}, fmt.Errorf("cannot select %s from %s", name, shortType(t))
}

// findField finds a (possibly promoted) field; path lists embedded field names leading to it.
func findField(st *types.Struct, name string) (int, []string) {
	for i := 0; i < st.NumFields(); i++ {
		if st.Field(i).Name() == name {
			return i, []string{name}
		}
	}
	for i := 0; i < st.NumFields(); i++ {
		fd := st.Field(i)
		if !fd.Embedded() {
			continue
		}
		et := unalias(fd.Type())
		if p, ok := et.Underlying().(*types.Pointer); ok {
			et = unalias(p.Elem())
		}
		if est, ok := et.Underlying().(*types.Struct); ok {
			if j, p := findField(est, name); j >= 0 {
				return i, append([]string{fd.Name()}, p...)
			}
		}
	}
	return -1, nil
}

func (f *FnVC) specIndex(env *SEnv, e *spec.Expr) (Val, error) {
	x, err := f.evalSpec(env, e.Args[0], nil)
	if err != nil {
		return Val{}, err
	}
	t := unalias(x.Typ)
	if mt, ok := t.Underlying().(*types.Map); ok {
		k, err := f.evalSpec(env, e.Args[1], mt.Key())
		if err != nil {
			return Val{}, err
		}
		kt := f.mapKey(k)
		has := and(not(eq(x.T, Term{"0", SRef})), f.mapHas(env.cur, x.T, mt, kt))
		return Val{T: ite(has, f.mapVal(env.cur, x.T, mt, kt), f.TE.Zero(mt.Elem())), Typ: mt.Elem()}, nil
	}
	i, err := f.evalSpec(env, e.Args[1], types.Typ[types.Int])
	if err != nil {
		return Val{}, err
	}
	ix := f.idx64(i)
	switch x.T.Sort {
	case SStr:
		return Val{T: sel(app("sarr", arraySort(BV(64), BV(8)), x.T), app("bvadd", BV(64), app("soff", BV(64), x.T), ix)), Typ: types.Typ[types.Uint8]}, nil
	case SSlice:
		sl := t.Underlying().(*types.Slice)
		sort := f.TE.Sort(sl.Elem())
		h := f.comp(env.cur, elemComp(sort), arraySort(SRef, arraySort(BV(64), sort)))
		return Val{T: sel(sel(h, app("lref", SRef, x.T)), app("bvadd", BV(64), app("loff", BV(64), x.T), ix)), Typ: sl.Elem()}, nil
	}
	if at, ok := t.Underlying().(*types.Array); ok {
		return Val{T: sel(x.T, ix), Typ: at.Elem()}, nil
	}
	if p, ok := t.Underlying().(*types.Pointer); ok {
		if at, ok := unalias(p.Elem()).Underlying().(*types.Array); ok {
			sort := f.TE.Sort(at.Elem())
			h := f.comp(env.cur, elemComp(sort), arraySort(SRef, arraySort(BV(64), sort)))
			return Val{T: sel(sel(h, x.T), ix), Typ: at.Elem()}, nil
		}
	}
	return Val{}, fmt.Errorf("cannot index %s", shortType(t))
}

func (f *FnVC) specSlice(env *SEnv, e *spec.Expr) (Val, error) {
	x, err := f.evalSpec(env, e.Args[0], nil)
	if err != nil {
		return Val{}, err
	}
	var lo, hi Term
	if e.Args[1] != nil {
		v, err := f.evalSpec(env, e.Args[1], types.Typ[types.Int])
		if err != nil {
			return Val{}, err
		}
		lo = f.idx64(v)
	} else {
		lo = u64(0)
	}
	switch x.T.Sort {
	case SStr:
		if e.Args[2] != nil {
			v, err := f.evalSpec(env, e.Args[2], types.Typ[types.Int])
			if err != nil {
				return Val{}, err
			}
			hi = f.idx64(v)
		} else {
			hi = app("slen", BV(64), x.T)
		}
		return Val{T: app("mkstr", SStr, app("sarr", arraySort(BV(64), BV(8)), x.T), app("bvadd", BV(64), app("soff", BV(64), x.T), lo), app("bvsub", BV(64), hi, lo)), Typ: x.Typ}, nil
	case SSlice:
		if e.Args[2] != nil {
			v, err := f.evalSpec(env, e.Args[2], types.Typ[types.Int])
			if err != nil {
				return Val{}, err
			}
			hi = f.idx64(v)
		} else {
			hi = app("llen", BV(64), x.T)
		}
		return Val{T: app("mkslice", SSlice, app("lref", SRef, x.T), app("bvadd", BV(64), app("loff", BV(64), x.T), lo), app("bvsub", BV(64), hi, lo), app("bvsub", BV(64), app("lcap", BV(64), x.T), lo)), Typ: x.Typ}, nil
	}
	return Val{}, fmt.Errorf("cannot slice %s", shortType(x.Typ))
}

func (f *FnVC) specUnary(env *SEnv, e *spec.Expr, want types.Type) (Val, error) {
	switch e.Tok {
	case "!":
		x, err := f.evalSpec(env, e.Args[0], types.Typ[types.Bool])
		if err != nil {
			return Val{}, err
		}
		return Val{T: not(x.T), Typ: types.Typ[types.Bool]}, nil
	case "-", "^":
		x, err := f.evalSpec(env, e.Args[0], want)
		if err != nil {
			return Val{}, err
		}
		if bvWidth(x.T.Sort) == 0 {
			return Val{}, fmt.Errorf("operator %s on %s", e.Tok, x.T.Sort)
		}
		op := "bvneg"
		if e.Tok == "^" {
			op = "bvnot"
		}
		return Val{T: app(op, x.T.Sort, x.T), Typ: x.Typ}, nil
	case "&":
		// address of a variable living in a memory cell
		if a := e.Args[0]; a.Op == "id" {
			if cell, ok := env.cells[a.Tok]; ok {
				return cell, nil
			}
			if av, ok := f.addrNames[a.Tok]; ok {
				for it := f.curNode.it; it >= 0; it-- {
					if pv, ok := f.vals[vkey{av, it}]; ok {
						return pv, nil
					}
				}
			}
		}
		// address of an aggregate field / of a field
		x, err := f.evalSpec(env, e.Args[0], nil)
		if err != nil {
			return Val{}, err
		}
		if _, ok := unalias(x.Typ).Underlying().(*types.Pointer); ok {
			return x, nil // aggregate fields already evaluate to their reference
		}
		return Val{}, fmt.Errorf("& of non-aggregate in specification")
	case "*":
		x, err := f.evalSpec(env, e.Args[0], nil)
		if err != nil {
			return Val{}, err
		}
		p, ok := unalias(x.Typ).Underlying().(*types.Pointer)
		if !ok {
			return Val{}, fmt.Errorf("* of non-pointer")
		}
		return f.loadAt(env.cur, x, p.Elem()), nil
	}
	return Val{}, fmt.Errorf("unary %s", e.Tok)
}

func (f *FnVC) specBinary(env *SEnv, e *spec.Expr, want types.Type) (Val, error) {
	boolT := types.Typ[types.Bool]
	switch e.Tok {
	case "&&", "||", "==>", "<==>":
		a, err := f.evalSpec(env, e.Args[0], boolT)
		if err != nil {
			return Val{}, err
		}
		b, err := f.evalSpec(env, e.Args[1], boolT)
		if err != nil {
			return Val{}, err
		}
		if a.T.Sort != SBool || b.T.Sort != SBool {
			return Val{}, fmt.Errorf("%s needs booleans in %s", e.Tok, e)
		}
		switch e.Tok {
		case "&&":
			return Val{T: and(a.T, b.T), Typ: boolT}, nil
		case "||":
			return Val{T: or(a.T, b.T), Typ: boolT}, nil
		case "==>":
			return Val{T: implies(a.T, b.T), Typ: boolT}, nil
		default:
			return Val{T: eq(a.T, b.T), Typ: boolT}, nil
		}
	}
	// operands: evaluate the non-literal side first to type the literal side
	var a, b Val
	var err error
	isCmp := false
	switch e.Tok {
	case "==", "!=", "<", "<=", ">", ">=":
		isCmp = true
	}
	hint := want
	if isCmp {
		hint = nil
	}
	if isLiteral(e.Args[0]) && !isLiteral(e.Args[1]) {
		b, err = f.evalSpec(env, e.Args[1], hint)
		if err != nil {
			return Val{}, err
		}
		a, err = f.evalSpec(env, e.Args[0], b.Typ)
	} else {
		a, err = f.evalSpec(env, e.Args[0], hint)
		if err != nil {
			return Val{}, err
		}
		h2 := a.Typ
		if e.Tok == "<<" || e.Tok == ">>" {
			h2 = types.Typ[types.Uint]
		}
		b, err = f.evalSpec(env, e.Args[1], h2)
	}
	if err != nil {
		return Val{}, err
	}
	if a.Typ == untypedNil && b.Typ != untypedNil {
		a = Val{T: f.TE.Zero(b.Typ), Typ: b.Typ}
	}
	if b.Typ == untypedNil && a.Typ != untypedNil {
		b = Val{T: f.TE.Zero(a.Typ), Typ: a.Typ}
	}
	if e.Tok == "++" {
		if a.T.Sort != SStr || b.T.Sort != SStr {
			return Val{}, fmt.Errorf("++ needs strings/bytes")
		}
		return Val{T: f.strConcat(env.cur, a.T, b.T), Typ: a.Typ}, nil
	}
	tok, ok := goTokens[e.Tok]
	if !ok {
		return Val{}, fmt.Errorf("operator %s", e.Tok)
	}
	if e.Tok != "<<" && e.Tok != ">>" && a.T.Sort != b.T.Sort {
		// integer width mismatch between spec ints: widen the narrower to the wider (sign per its own type)
		wa, wb := bvWidth(a.T.Sort), bvWidth(b.T.Sort)
		if wa > 0 && wb > 0 {
			if wa < wb {
				a = Val{T: f.resize(a.T, wb, isSigned(a.Typ)), Typ: b.Typ}
			} else {
				b = Val{T: f.resize(b.T, wa, isSigned(b.Typ)), Typ: a.Typ}
			}
		} else {
			return Val{}, fmt.Errorf("operands of %s have different sorts (%s vs %s) in %s", e.Tok, a.T.Sort, b.T.Sort, e)
		}
	}
	rt := a.Typ
	if isCmp {
		rt = boolT
	}
	saved := f.checks
	f.checks = map[string]bool{}
	res := f.binop(env.cur, tok, a, b, rt, 0)
	f.checks = saved
	return res, nil
}

func (f *FnVC) specCall(env *SEnv, e *spec.Expr, want types.Type) (Val, error) {
	fn := e.Args[0]
	args := e.Args[1:]
	boolT := types.Typ[types.Bool]
	if fn.Op == "id" {
		switch fn.Tok {
		case "old":
			ch := env.child()
			ch.cur = env.old
			for k, v := range env.oldNames() {
				ch.names[k] = v
			}
			return f.evalSpec(ch, args[0], want)
		case "len", "cap":
			x, err := f.evalSpec(env, args[0], nil)
			if err != nil {
				return Val{}, err
			}
			it := types.Typ[types.Int]
			switch x.T.Sort {
			case SStr:
				return Val{T: app("slen", BV(64), x.T), Typ: it}, nil
			case SSlice:
				if fn.Tok == "cap" {
					return Val{T: app("lcap", BV(64), x.T), Typ: it}, nil
				}
				return Val{T: app("llen", BV(64), x.T), Typ: it}, nil
			}
			if mt, ok := unalias(x.Typ).Underlying().(*types.Map); ok {
				return Val{T: f.mapLen(env.cur, x.T, mt), Typ: it}, nil
			}
			if at, ok := unalias(x.Typ).Underlying().(*types.Array); ok {
				return Val{T: u64(uint64(at.Len())), Typ: it}, nil
			}
			return Val{}, fmt.Errorf("len of %s", shortType(x.Typ))
		case "held":
			x, err := f.evalSpec(env, args[0], nil)
			if err != nil {
				return Val{}, err
			}
			f.usesLocks = true
			return Val{T: f.held(env.cur, f.refOf(x)), Typ: lockStateType}, nil
		case "nolocks":
			f.usesLocks = true
			return Val{T: f.noLocksHeld(env.cur), Typ: boolT}, nil
		case "has":
			m, err := f.evalSpec(env, args[0], nil)
			if err != nil {
				return Val{}, err
			}
			mt, ok := unalias(m.Typ).Underlying().(*types.Map)
			if !ok {
				return Val{}, fmt.Errorf("has() needs a map")
			}
			k, err := f.evalSpec(env, args[1], mt.Key())
			if err != nil {
				return Val{}, err
			}
			// a nil map has no entries
			return Val{T: and(not(eq(m.T, Term{"0", SRef})), f.mapHas(env.cur, m.T, mt, f.mapKey(k))), Typ: boolT}, nil
		case "called":
			s, ok := f.sites[args[0].Tok]
			if !ok {
				return Val{T: boolLit(false), Typ: boolT}, nil
			}
			return Val{T: s.reach, Typ: boolT}, nil
		case "res":
			s, ok := f.sites[args[0].Tok]
			if !ok {
				s = f.placeholderSite(args[0].Tok)
			}
			if s == nil {
				return Val{}, fmt.Errorf("res(%s): no labelled call site of that name in this function", args[0].Tok)
			}
			if len(args) > 1 {
				i, _ := strconv.Atoi(args[1].Tok)
				if s.res.Tuple == nil || i >= len(s.res.Tuple) {
					return Val{}, fmt.Errorf("res(%s,%d): no such result", args[0].Tok, i)
				}
				return s.res.Tuple[i], nil
			}
			return s.res, nil
		case "arg":
			s, ok := f.sites[args[0].Tok]
			if !ok {
				s = f.placeholderSite(args[0].Tok)
			}
			if s == nil {
				return Val{}, fmt.Errorf("arg(%s): no labelled call site of that name in this function", args[0].Tok)
			}
			i, _ := strconv.Atoi(args[1].Tok)
			if i >= len(s.args) {
				return Val{}, fmt.Errorf("arg(%s,%d): no such argument", args[0].Tok, i)
			}
			return s.args[i], nil
		case "at":
			// at(label, e): e evaluated in the state right after the labelled call returned
			s, ok := f.sites[args[0].Tok]
			if !ok || s.postSt == nil {
				return Val{}, fmt.Errorf("at(%s, ...): labelled call site not executed before this point (or merged label)", args[0].Tok)
			}
			ch := env.child()
			ch.cur = s.postSt
			return f.evalSpec(ch, args[1], want)
		case "athead":
			// athead(K, e): e evaluated at the head of loop K for the iteration in progress (an inner loop's invariant uses it to
			// relate its state to where the enclosing iteration started)
			k, err := strconv.Atoi(args[0].Tok)
			if err != nil {
				return Val{}, fmt.Errorf("athead(K, e): K must be a loop ordinal")
			}
			for _, li := range f.loops {
				if li.ordinal != k {
					continue
				}
				hs, hn := f.loopHdrState[li], f.loopHdrNames[li]
				if hs == nil || hn == nil {
					break
				}
				ch := env.child()
				ch.cur = hs
				for n, v := range hn {
					ch.names[n] = v
				}
				return f.evalSpec(ch, args[1], want)
			}
			return Val{}, fmt.Errorf("athead(%d, ...): loop head not executed before this point (not an enclosing cut loop)", k)
		case "ite":
			c, err := f.evalSpec(env, args[0], boolT)
			if err != nil {
				return Val{}, err
			}
			a, err := f.evalSpec(env, args[1], want)
			if err != nil {
				return Val{}, err
			}
			b, err := f.evalSpec(env, args[2], a.Typ)
			if err != nil {
				return Val{}, err
			}
			return Val{T: ite(c.T, a.T, b.T), Typ: a.Typ}, nil
		case "bytes", "string":
			x, err := f.evalSpec(env, args[0], nil)
			if err != nil {
				return Val{}, err
			}
			if x.T.Sort == SStr {
				return Val{T: x.T, Typ: types.Typ[types.String]}, nil
			}
			if x.T.Sort == SSlice {
				h := f.comp(env.cur, elemComp(BV(8)), arraySort(SRef, arraySort(BV(64), BV(8))))
				return Val{T: app("mkstr", SStr, sel(h, app("lref", SRef, x.T)), app("loff", BV(64), x.T), app("llen", BV(64), x.T)), Typ: types.Typ[types.String]}, nil
			}
			return Val{}, fmt.Errorf("bytes() of %s", x.T.Sort)
		case "same":
			// same(a, b): a and b are the same value representation (for byte sequences: same backing content, offset, length)
			a, err := f.evalSpec(env, args[0], nil)
			if err != nil {
				return Val{}, err
			}
			b, err := f.evalSpec(env, args[1], a.Typ)
			if err != nil {
				return Val{}, err
			}
			if a.T.Sort != b.T.Sort {
				return Val{}, fmt.Errorf("same() of %s and %s", a.T.Sort, b.T.Sort)
			}
			return Val{T: eq(a.T, b.T), Typ: boolT}, nil
		case "upd":
			// upd(d, i, v): the byte sequence d with position i set to v (same offset and length)
			d, err := f.evalSpec(env, args[0], nil)
			if err != nil {
				return Val{}, err
			}
			if d.T.Sort != SStr {
				return Val{}, fmt.Errorf("upd() of %s", d.T.Sort)
			}
			i, err := f.evalSpec(env, args[1], types.Typ[types.Int])
			if err != nil {
				return Val{}, err
			}
			v, err := f.evalSpec(env, args[2], types.Typ[types.Uint8])
			if err != nil {
				return Val{}, err
			}
			arr := app("sarr", arraySort(BV(64), BV(8)), d.T)
			off := app("soff", BV(64), d.T)
			return Val{T: app("mkstr", SStr, store(arr, app("bvadd", BV(64), off, i.T), v.T), off, app("slen", BV(64), d.T)), Typ: types.Typ[types.String]}, nil
		case "be":
			// be(x, n): big-endian value of the first n bytes of x as a bit-vector of 8n bits
			x, err := f.evalSpec(env, args[0], nil)
			if err != nil {
				return Val{}, err
			}
			n, err := strconv.Atoi(args[1].Tok)
			if err != nil || n <= 0 || n > 64 {
				return Val{}, fmt.Errorf("be(x, n): n must be a literal 1..64")
			}
			off := 0
			if len(args) > 2 { // be(x, n, off): starting at byte off
				off, err = strconv.Atoi(args[2].Tok)
				if err != nil {
					return Val{}, fmt.Errorf("be(x, n, off): off must be a literal")
				}
			}
			var parts []string
			for i := 0; i < n; i++ {
				b, err := f.byteOf(env, x, u64(uint64(off+i)))
				if err != nil {
					return Val{}, err
				}
				parts = append(parts, b.S)
			}
			if n == 1 {
				return Val{T: Term{parts[0], BV(8)}, Typ: types.Typ[types.Uint8]}, nil
			}
			return Val{T: Term{"(concat " + strings.Join(parts, " ") + ")", BV(8 * n)}, Typ: WideBV(8 * n)}, nil
		case "streq":
			a, err := f.evalSpec(env, args[0], nil)
			if err != nil {
				return Val{}, err
			}
			b, err := f.evalSpec(env, args[1], nil)
			if err != nil {
				return Val{}, err
			}
			return Val{T: f.strEqual(a.T, b.T), Typ: boolT}, nil
		case "dyntype":
			// dyntype(x, "T"): the dynamic type of interface value x is T (statically known or by tag)
			x, err := f.evalSpec(env, args[0], nil)
			if err != nil {
				return Val{}, err
			}
			wantT := args[1].Tok
			if args[0].Op == "id" {
				if d, ok := env.dyn[args[0].Tok]; ok {
					return Val{T: boolLit(d == wantT || strings.HasSuffix(d, wantT)), Typ: boolT}, nil
				}
			}
			for k, id := range f.TE.typeIDs {
				if strings.HasSuffix(k, wantT) {
					return Val{T: eq(app("ityp", SInt, x.T), Term{fmt.Sprint(id), SInt}), Typ: boolT}, nil
				}
			}
			return Val{T: boolLit(false), Typ: boolT}, nil
		case "cast":
			// cast(x, T): the value of dynamic type T inside interface value x (T a pointer type: its reference)
			x, err := f.evalSpec(env, args[0], nil)
			if err != nil {
				return Val{}, err
			}
			tt, err := f.specType(env, strings.ReplaceAll(args[1].String(), " ", ""))
			if err != nil {
				return Val{}, err
			}
			if x.T.Sort != SIface {
				return Val{T: x.T, Typ: tt}, nil
			}
			if f.TE.Sort(tt) == SRef {
				return Val{T: app("iref", SRef, x.T), Typ: tt}, nil
			}
			name, _ := f.boxFn(tt)
			return Val{T: app("un"+name, f.TE.Sort(tt), app("iref", SRef, x.T)), Typ: tt}, nil
		case "fresh":
			// fresh(x): the object behind x was allocated during this call (did not exist at entry)
			x, err := f.evalSpec(env, args[0], nil)
			if err != nil {
				return Val{}, err
			}
			a0 := f.comp(env.old, "alloc", SInt)
			return Val{T: Term{fmt.Sprintf("(> %s %s)", f.refOf(x).S, a0.S), SBool}, Typ: boolT}, nil
		case "ref":
			// ref(x): the object reference behind a pointer / interface / slice value
			x, err := f.evalSpec(env, args[0], nil)
			if err != nil {
				return Val{}, err
			}
			return Val{T: f.refOf(x), Typ: types.Typ[types.UnsafePointer]}, nil
		case "isnil":
			x, err := f.evalSpec(env, args[0], nil)
			if err != nil {
				return Val{}, err
			}
			if x.T.Sort == SSlice {
				return Val{T: eq(app("lref", SRef, x.T), Term{"0", SRef}), Typ: boolT}, nil
			}
			return Val{T: eq(x.T, f.TE.zeroOfSort(x.T.Sort, x.Typ)), Typ: boolT}, nil
		case "min", "max":
			a, err := f.evalSpec(env, args[0], want)
			if err != nil {
				return Val{}, err
			}
			b, err := f.evalSpec(env, args[1], a.Typ)
			if err != nil {
				return Val{}, err
			}
			lt := "bvult"
			if isSigned(a.Typ) {
				lt = "bvslt"
			}
			if fn.Tok == "min" {
				return Val{T: ite(app(lt, SBool, b.T, a.T), b.T, a.T), Typ: a.Typ}, nil
			}
			return Val{T: ite(app(lt, SBool, a.T, b.T), b.T, a.T), Typ: a.Typ}, nil
		}
		// casts
		if t, err := f.specType(env, fn.Tok); err == nil && len(args) == 1 && (isInteger(t) || fn.Tok == "bool") {
			x, err := f.evalSpec(env, args[0], nil)
			if err != nil {
				return Val{}, err
			}
			if bvWidth(x.T.Sort) == 0 {
				return Val{}, fmt.Errorf("cast %s of %s", fn.Tok, x.T.Sort)
			}
			return Val{T: f.resize(x.T, bvWidth(f.TE.Sort(t)), isSigned(x.Typ)), Typ: t}, nil
		}
		// spec functions (inlined)
		if sf := f.E.SpecFns[fn.Tok]; sf != nil {
			if len(args) != len(sf.Params) {
				return Val{}, fmt.Errorf("spec fn %s: %d args, want %d", sf.Name, len(args), len(sf.Params))
			}
			if env.depth > 40 {
				return Val{}, fmt.Errorf("spec fn %s: recursion too deep", sf.Name)
			}
			ch := env.child()
			ch.depth = env.depth + 1
			ch.pkg = f.E.specFnPkg[sf.Name]
			if ch.pkg == nil {
				ch.pkg = env.pkg
			}
			for i, p := range sf.Params {
				pt, err := f.specType(ch, p.Type)
				if err != nil {
					return Val{}, err
				}
				v, err := f.evalSpec(env, args[i], pt)
				if err != nil {
					return Val{}, err
				}
				ch.names[p.Name] = v
			}
			rt, err := f.specType(ch, sf.Result)
			if err != nil {
				return Val{}, err
			}
			return f.evalSpec(ch, sf.Body, rt)
		}
		// uninterpreted spec-level function: declared with "//@ spec ufn"
		if uf := f.E.UFns[fn.Tok]; uf != nil {
			var ts []Term
			var sorts []string
			for i, p := range uf.Params {
				pt, err := f.specType(env, p.Type)
				if err != nil {
					return Val{}, err
				}
				v, err := f.evalSpec(env, args[i], pt)
				if err != nil {
					return Val{}, err
				}
				ts = append(ts, v.T)
				sorts = append(sorts, v.T.Sort)
			}
			rt, err := f.specType(env, uf.Result)
			if err != nil {
				return Val{}, err
			}
			name := "uf_" + uf.Name
			f.SC.DeclareFun(name, sorts, f.TE.Sort(rt))
			return Val{T: app(name, f.TE.Sort(rt), ts...), Typ: rt}, nil
		}
		return Val{}, fmt.Errorf("unknown function %s in specification", fn.Tok)
	}
	if fn.Op == "sel" {
		// pure method call x.M(args) or pkg.F(args)
		if b := fn.Args[0]; b.Op == "id" {
			if _, isName := env.names[b.Tok]; !isName {
				if p := f.E.findPackage(env.pkg, b.Tok, fn.Tok); p != nil {
					o, _ := p.Scope().Lookup(fn.Tok).(*types.Func)
					if o == nil {
						return Val{}, fmt.Errorf("no function %s.%s", b.Tok, fn.Tok)
					}
					var vs []Val
					sig := o.Type().(*types.Signature)
					for i, a := range args {
						var pt types.Type
						if i < sig.Params().Len() {
							pt = sig.Params().At(i).Type()
						}
						v, err := f.evalSpec(env, a, pt)
						if err != nil {
							return Val{}, err
						}
						vs = append(vs, v)
					}
					return f.pureApp(o.FullName(), vs, sig), nil
				}
			}
		}
		x, err := f.evalSpec(env, fn.Args[0], nil)
		if err != nil {
			return Val{}, err
		}
		obj, _, _ := types.LookupFieldOrMethod(x.Typ, true, env.pkg, fn.Tok)
		m, ok := obj.(*types.Func)
		if !ok {
			return Val{}, fmt.Errorf("no method %s on %s", fn.Tok, shortType(x.Typ))
		}
		sig := m.Type().(*types.Signature)
		vs := []Val{x}
		for i, a := range args {
			v, err := f.evalSpec(env, a, sig.Params().At(i).Type())
			if err != nil {
				return Val{}, err
			}
			vs = append(vs, v)
		}
		return f.pureApp(m.FullName(), vs, sig), nil
	}
	return Val{}, fmt.Errorf("cannot call %s", fn)
}

// pureApp applies the uninterpreted function standing for a pure Go function.
func (f *FnVC) pureApp(fullName string, args []Val, sig *types.Signature) Val {
	var rt types.Type = sig.Results()
	if sig.Results().Len() == 1 {
		rt = sig.Results().At(0).Type()
	}
	name := "pure_" + sanitize(fullName)
	var sorts []string
	var ts []Term
	for _, a := range args {
		sorts = append(sorts, a.T.Sort)
		ts = append(ts, a.T)
	}
	if tup, ok := rt.(*types.Tuple); ok {
		out := Val{Typ: rt}
		for i := 0; i < tup.Len(); i++ {
			n := fmt.Sprintf("%s_%d", name, i)
			f.SC.DeclareFun(n, sorts, f.TE.Sort(tup.At(i).Type()))
			out.Tuple = append(out.Tuple, Val{T: app(n, f.TE.Sort(tup.At(i).Type()), ts...), Typ: tup.At(i).Type()})
		}
		return out
	}
	rs := f.TE.Sort(rt)
	f.SC.DeclareFun(name, sorts, rs)
	if len(ts) == 0 {
		return Val{T: Term{name, rs}, Typ: rt}
	}
	return Val{T: app(name, rs, ts...), Typ: rt}
}

// oldNames returns bindings that differ in the old state (parameters at entry).
func (env *SEnv) oldNames() map[string]Val {
	if env.f.entryNames != nil && env.old == env.f.entry {
		return env.f.entryNames
	}
	return nil
}

// bodyEnv: environment inside the function being verified at state st.
func (f *FnVC) bodyEnv(st *State) *SEnv {
	env := &SEnv{f: f, names: map[string]Val{}, cur: st, old: f.entry, pkg: f.Fn.Pkg.Pkg, dyn: map[string]string{}, cells: map[string]Val{}}
	for k, v := range f.params {
		env.names[k] = v
	}
	// captured variables and address-taken locals: the source name denotes the content of the cell (evaluated lazily
	// in the state of the expression), &name the cell
	for _, fv := range f.Fn.FreeVars {
		if pv, ok := f.vals[vkey{fv, 0}]; ok {
			if _, ok := unalias(fv.Type()).Underlying().(*types.Pointer); ok {
				env.cells[fv.Name()] = pv
			}
		}
	}
	for name, av := range f.addrNames {
		if _, isParam := f.params[name]; isParam {
			continue
		}
		for it := f.curNode.it; it >= 0; it-- {
			if pv, ok := f.vals[vkey{av, it}]; ok {
				if _, ok := unalias(av.Type()).Underlying().(*types.Pointer); ok {
					env.cells[name] = pv
				}
				break
			}
		}
	}
	for k, v := range f.localNames {
		env.names[k] = v
	}
	return env
}

// havocLoc forgets the location(s) denoted by a modifies-expression.
func (f *FnVC) havocLoc(env *SEnv, st *State, e *spec.Expr) error {
	switch e.Op {
	case "idx": // x[*] : all elements of slice x
		x, err := f.evalSpec(env, e.Args[0], nil)
		if err != nil {
			return err
		}
		if x.T.Sort != SSlice {
			return fmt.Errorf("modifies %s: not a slice", e)
		}
		sl := unalias(x.Typ).Underlying().(*types.Slice)
		sort := f.TE.Sort(sl.Elem())
		name := elemComp(sort)
		h := f.comp(st, name, arraySort(SRef, arraySort(BV(64), sort)))
		ref := app("lref", SRef, x.T)
		old := sel(h, ref)
		fresh := f.SC.Declare("mod_elems", arraySort(BV(64), sort))
		// only the window [off, off+len) may change
		f.SC.Assert(fmt.Sprintf("(forall ((j (_ BitVec 64))) (! (=> (or (bvult j (loff %s)) (bvuge j (bvadd (loff %s) (llen %s)))) (= (select %s j) (select %s j))) :pattern ((select %s j))))",
			x.T.S, x.T.S, x.T.S, fresh.S, old.S, fresh.S))
		f.setComp(st, name, store(h, ref, fresh))
		return nil
	case "ghost":
		x, err := f.evalSpec(env, e.Args[0], nil)
		if err != nil {
			return err
		}
		gt, ok := f.E.GhostFields[e.Tok]
		if !ok {
			return fmt.Errorf("undeclared ghost field @%s", e.Tok)
		}
		t, err := f.specType(env, gt)
		if err != nil {
			return err
		}
		sort := f.TE.Sort(t)
		name := "G$" + e.Tok
		h := f.comp(st, name, arraySort(SRef, sort))
		fresh := f.freshVal("mod_"+e.Tok, t)
		f.setComp(st, name, store(h, f.refOf(x), fresh.T))
		return nil
	case "un":
		if e.Tok == "*" {
			x, err := f.evalSpec(env, e.Args[0], nil)
			if err != nil {
				return err
			}
			p, ok := unalias(x.Typ).Underlying().(*types.Pointer)
			if !ok {
				return fmt.Errorf("modifies *%s: not a pointer", e.Args[0])
			}
			fresh := f.freshVal("mod_obj", p.Elem())
			f.assumeKnownDeep(st, fresh)
			f.storeAt(st, x, fresh, p.Elem())
			return nil
		}
	case "sel":
		x, err := f.evalSpec(env, e.Args[0], nil)
		if err != nil {
			return err
		}
		p, ok := unalias(x.Typ).Underlying().(*types.Pointer)
		if !ok {
			return fmt.Errorf("modifies %s: base is not a pointer", e)
		}
		stt, ok := unalias(p.Elem()).Underlying().(*types.Struct)
		if !ok {
			return fmt.Errorf("modifies %s: base is not a struct pointer", e)
		}
		si := f.TE.StructInfo(p.Elem())
		idx, path := findField(stt, e.Tok)
		if idx < 0 || len(path) > 1 {
			return fmt.Errorf("modifies %s: no direct field %s", e, e.Tok)
		}
		ft := stt.Field(idx).Type()
		fresh := f.freshVal("mod_"+e.Tok, ft)
		f.assumeKnownDeep(st, fresh)
		if isAggregate(ft) {
			f.storeObj(st, f.fa(si.Name, idx, x.T), fresh, ft)
			return nil
		}
		name := fieldComp(si.Name, idx)
		h := f.comp(st, name, arraySort(SRef, f.TE.Sort(ft)))
		f.setComp(st, name, store(h, x.T, fresh.T))
		if mt, isMap := unalias(ft).Underlying().(*types.Map); isMap {
			_ = mt
		}
		return nil
	case "call":
		if e.Args[0].Op == "id" {
			switch e.Args[0].Tok {
			case "held":
				x, err := f.evalSpec(env, e.Args[1], nil)
				if err != nil {
					return err
				}
				h := f.comp(st, heldComp, heldSort())
				f.setComp(st, heldComp, store(h, f.refOf(x), f.SC.Declare("mod_held", SInt)))
				return nil
			case "mapof": // mapof(m): contents of map m
				x, err := f.evalSpec(env, e.Args[1], nil)
				if err != nil {
					return err
				}
				mt, ok := unalias(x.Typ).Underlying().(*types.Map)
				if !ok {
					return fmt.Errorf("mapof() needs a map")
				}
				f.havocMapAt(st, x.T, mt)
				return nil
			case "everything":
				f.havocAll(st)
				return nil
			case "fields":
				// fields(T, f1, f2, ...): field f of ANY object of struct type T
				keys, err := f.E.fieldsKeys(env.pkg, e.Args[1:])
				if err != nil {
					return err
				}
				seen := map[string]bool{}
				for _, k := range keys {
					f.havocModKey(st, k, seen)
				}
				return nil
			}
		}
	}
	return fmt.Errorf("unsupported modifies location %s", e)
}

var _ = spec.ParseExpr

var goTokens = map[string]token.Token{
	"+": token.ADD, "-": token.SUB, "*": token.MUL, "/": token.QUO, "%": token.REM,
	"&": token.AND, "|": token.OR, "^": token.XOR, "&^": token.AND_NOT, "<<": token.SHL, ">>": token.SHR,
	"==": token.EQL, "!=": token.NEQ, "<": token.LSS, "<=": token.LEQ, ">": token.GTR, ">=": token.GEQ,
}

// byteOf reads byte i of a string / byte slice / byte array value.
func (f *FnVC) byteOf(env *SEnv, x Val, i Term) (Term, error) {
	switch x.T.Sort {
	case SStr:
		return sel(app("sarr", arraySort(BV(64), BV(8)), x.T), app("bvadd", BV(64), app("soff", BV(64), x.T), i)), nil
	case SSlice:
		h := f.comp(env.cur, elemComp(BV(8)), arraySort(SRef, arraySort(BV(64), BV(8))))
		return sel(sel(h, app("lref", SRef, x.T)), app("bvadd", BV(64), app("loff", BV(64), x.T), i)), nil
	}
	if x.T.Sort == arraySort(BV(64), BV(8)) {
		return sel(x.T, i), nil
	}
	return Term{}, fmt.Errorf("not a byte sequence: %s", x.T.Sort)
}

// lintLocal (VERIF_LINT_LOCALS=1): reports contract clauses that name a local variable of the function (not a parameter,
// result, receiver or captured variable). Such a clause is brittle under renaming and can be a tautology when the local is
// simply the value the code passes on; the list is reviewed by hand.
func (f *FnVC) lintLocal(name string) {
	if os.Getenv("VERIF_LINT_LOCALS") == "" || name == "result" || name == "value" || strings.HasPrefix(name, "arg") || name == "rangeindex" {
		return
	}
	for _, p := range f.Fn.Params {
		if p.Name() == name {
			return
		}
	}
	for _, fv := range f.Fn.FreeVars {
		if fv.Name() == name {
			return
		}
	}
	if res := f.Fn.Signature.Results(); res != nil {
		for i := 0; i < res.Len(); i++ {
			if res.At(i).Name() == name {
				return
			}
		}
	}
	if f.localVarType(name) == nil {
		return
	}
	key := f.Short + " names local " + name
	if lintSeen[key] {
		return
	}
	lintSeen[key] = true
	fmt.Fprintln(os.Stderr, "LINT "+key)
}

var lintSeen = map[string]bool{}
