package vc

import (
	"fmt"
	"go/token"
	"go/types"
	"strings"

	"golang.org/x/tools/go/ssa"
)

func u64(v uint64) Term { return bvLit(v, 64) }

func (f *FnVC) srcKey(pos token.Pos) string { return f.E.srcText(pos) }

// execInstr interprets one instruction in state st.
func (f *FnVC) execInstr(st *State, in ssa.Instruction) {
	if p := in.Pos(); p.IsValid() {
		f.curPos = p
	}
	switch x := in.(type) {
	case *ssa.DebugRef:
	case *ssa.Alloc:
		t := x.Type().(*types.Pointer).Elem()
		r := f.newRef(st)
		f.zeroInit(st, r, t)
		f.set(x, Val{T: r, Typ: x.Type()})
		if !x.Heap {
			st.Locals = append(st.Locals, f.objectRefs(r, t, 0)...)
		} else if f.curNode.it == 0 && !isAggregate(t) && !isArray(t) && f.privateCellInfo(x) != nil {
			if f.privRefs == nil {
				f.privRefs = map[*ssa.Alloc]Term{}
			}
			f.privRefs[x] = r
		}
		// a named variable that lives in a cell: its source name denotes the cell's content in specifications
		if x.Comment != "" && x.Comment != "complit" && x.Comment != "varargs" && !strings.Contains(x.Comment, " ") {
			if _, isParam := f.params[x.Comment]; !isParam {
				f.addrNames[x.Comment] = x
			}
		}
	case *ssa.BinOp:
		f.set(x, f.binop(st, x.Op, f.get(x.X), f.get(x.Y), x.Type(), x.Pos()))
	case *ssa.UnOp:
		f.unop(st, x)
	case *ssa.Phi:
		// handled at block entry
	case *ssa.Convert:
		f.set(x, f.convert(st, f.get(x.X), x.Type()))
	case *ssa.ChangeType:
		v := f.get(x.X)
		v.Typ = x.Type()
		f.set(x, v)
	case *ssa.MultiConvert:
		f.set(x, f.convert(st, f.get(x.X), x.Type()))
	case *ssa.ChangeInterface:
		v := f.get(x.X)
		v.Typ = x.Type()
		f.set(x, v)
	case *ssa.MakeInterface:
		f.makeInterface(st, x)
	case *ssa.TypeAssert:
		f.typeAssert(st, x)
	case *ssa.Extract:
		tv := f.get(x.Tuple)
		if tv.Tuple == nil || x.Index >= len(tv.Tuple) {
			f.set(x, f.freshVal("extract", x.Type()))
		} else {
			f.set(x, tv.Tuple[x.Index])
		}
	case *ssa.FieldAddr:
		f.fieldAddr(st, x)
	case *ssa.Field:
		sv := f.get(x.X)
		si := f.TE.StructInfo(x.X.Type())
		f.TE.declareStruct(si)
		f.set(x, Val{T: app(fmt.Sprintf("f%d_%s", x.Field, si.Name), si.Fields[x.Field], sv.T), Typ: x.Type()})
	case *ssa.IndexAddr:
		f.indexAddr(st, x)
	case *ssa.Index:
		f.index(st, x)
	case *ssa.Slice:
		f.sliceOp(st, x)
	case *ssa.Lookup:
		f.lookup(st, x)
	case *ssa.MapUpdate:
		f.mapUpdate(st, x)
	case *ssa.MakeMap:
		r := f.newRef(st)
		kt := x.Type().Underlying().(*types.Map)
		f.mapInit(st, r, kt)
		f.set(x, Val{T: r, Typ: x.Type()})
	case *ssa.MakeSlice:
		f.makeSlice(st, x)
	case *ssa.MakeChan:
		f.set(x, Val{T: f.newRef(st), Typ: x.Type()})
	case *ssa.MakeClosure:
		r := f.newRef(st)
		fn := x.Fn.(*ssa.Function)
		f.E.closures[closureKey{f, r.S}] = &closureInfo{fn: fn, bindings: x.Bindings, maker: x}
		v := Val{T: r, Typ: x.Type()}
		f.set(x, v)
		f.closureOf[x] = fn
	case *ssa.Store:
		p := f.get(x.Addr)
		v := f.get(x.Val)
		f.guardCheck(st, x.Addr, true, x.Pos())
		f.atStore(st, x, p, v)
		f.storeAt(st, p, v, x.Val.Type())
		if al, ok := x.Addr.(*ssa.Alloc); ok && v.Tuple == nil && x.Block() == al.Block() && singleAssignCell(al) {
			if f.roCell == nil {
				f.roCell = map[vkey]Val{}
			}
			f.roCell[vkey{al, f.curNode.it}] = v
		}
	case *ssa.Call:
		res := f.call(st, x, &x.Call, x.Pos())
		f.set(x, res)
	case *ssa.Defer:
		var args []Val
		if x.Call.IsInvoke() {
			args = append(args, f.get(x.Call.Value))
		}
		for _, a := range x.Call.Args {
			args = append(args, f.get(a))
		}
		f.defers = append(f.defers, deferRec{instr: x, cond: st.Reach, args: args, it: f.curNode.it})
	case *ssa.RunDefers:
		f.runDefers(st)
	case *ssa.Go:
		// the spawned function runs later on an arbitrary heap: effects dropped here (verified separately); the
		// arguments are evaluated now, so `at-call` clauses of the spawner can constrain what the goroutine is given
		f.abstracted("go statement")
		if f.Ct != nil && len(f.Ct.AtCalls) > 0 {
			if _, isB := x.Call.Value.(*ssa.Builtin); !isB {
				var gargs []Val
				if x.Call.IsInvoke() {
					gargs = append(gargs, f.get(x.Call.Value))
				}
				for _, a := range x.Call.Args {
					gargs = append(gargs, f.get(a))
				}
				_, _, display := f.calleeKeys(&x.Call)
				f.noteSite(st, &x.Call, display, gargs, Val{}, x.Pos())
			}
		}
	case *ssa.Send:
		f.abstracted("channel send")
	case *ssa.Select:
		f.abstracted("select")
		f.set(x, f.freshVal("select", x.Type()))
	case *ssa.Range:
		f.rangeInit(st, x)
	case *ssa.Next:
		f.next(st, x)
	case *ssa.Panic:
		// terminator: handled by the block driver
	case *ssa.Return, *ssa.If, *ssa.Jump:
	case *ssa.SliceToArrayPointer:
		f.set(x, f.freshVal("s2a", x.Type()))
		f.abstracted("slice-to-array-pointer")
	default:
		f.abstracted(fmt.Sprintf("%T", in))
		if v, ok := in.(ssa.Value); ok {
			f.set(v, f.freshVal("abs", v.Type()))
		}
	}
}

// ---- arithmetic -------------------------------------------------------------------

func (f *FnVC) binop(st *State, op token.Token, a, b Val, rt types.Type, pos token.Pos) Val {
	sort := a.T.Sort
	w := bvWidth(sort)
	signed := isSigned(a.Typ)
	mk := func(t Term) Val { return Val{T: t, Typ: rt} }
	if isFloat(a.Typ) {
		// floats are opaque bit patterns: arithmetic/comparison uninterpreted (deterministic)
		fn := fmt.Sprintf("fop_%s_%d", sanitize(op.String()), w)
		rs := f.TE.Sort(rt)
		f.SC.DeclareFun(fn, []string{sort, b.T.Sort}, rs)
		f.abstracted("float arithmetic (uninterpreted)")
		return mk(app(fn, rs, a.T, b.T))
	}
	switch op {
	case token.EQL, token.NEQ:
		e := f.equal(a, b)
		if op == token.NEQ {
			e = not(e)
		}
		return mk(e)
	}
	if sort == SBool {
		switch op {
		case token.AND, token.LAND:
			return mk(and(a.T, b.T))
		case token.OR, token.LOR:
			return mk(or(a.T, b.T))
		case token.XOR:
			return mk(app("xor", SBool, a.T, b.T))
		}
	}
	if sort == SStr {
		switch op {
		case token.ADD:
			return mk(f.strConcat(st, a.T, b.T))
		case token.LSS, token.LEQ, token.GTR, token.GEQ:
			f.SC.DeclareFun("strcmp_"+sanitize(op.String()), []string{SStr, SStr}, SBool)
			return mk(app("strcmp_"+sanitize(op.String()), SBool, a.T, b.T))
		}
	}
	if w == 0 {
		f.abstracted("binop on " + sort)
		return f.freshVal("binop", rt)
	}
	cmp := func(s, u string) Val {
		if signed {
			return mk(app(s, SBool, a.T, b.T))
		}
		return mk(app(u, SBool, a.T, b.T))
	}
	switch op {
	case token.ADD:
		return mk(app("bvadd", sort, a.T, b.T))
	case token.SUB:
		return mk(app("bvsub", sort, a.T, b.T))
	case token.MUL:
		return mk(app("bvmul", sort, a.T, b.T))
	case token.QUO, token.REM:
		if f.checks["div"] {
			f.oblige("div", f.srcKey(pos), st, not(eq(b.T, bvLit(0, w))), pos, "division by zero")
		}
		if _, isConst := constU64(b.T); !isConst && w == 64 && !strings.HasPrefix(b.T.S, "#") {
			// symbolic divisor: division circuits make solvers crawl. Use an uninterpreted function constrained by the
			// arithmetic facts that matter for index arithmetic (sound: these are theorems about Go's / and %).
			return mk(f.symbolicDivRem(op, signed, a.T, b.T))
		}
		if op == token.QUO {
			if signed {
				return mk(app("bvsdiv", sort, a.T, b.T))
			}
			return mk(app("bvudiv", sort, a.T, b.T))
		}
		if signed {
			return mk(app("bvsrem", sort, a.T, b.T))
		}
		return mk(app("bvurem", sort, a.T, b.T))
	case token.AND:
		return mk(app("bvand", sort, a.T, b.T))
	case token.OR:
		return mk(app("bvor", sort, a.T, b.T))
	case token.XOR:
		return mk(app("bvxor", sort, a.T, b.T))
	case token.AND_NOT:
		return mk(app("bvand", sort, a.T, app("bvnot", sort, b.T)))
	case token.SHL, token.SHR:
		// shift count: any unsigned/signed integer; Go semantics: count >= width gives 0 (or sign fill)
		cnt := f.resize(b.T, w, false)
		wb := bvWidth(b.T.Sort)
		var big Term
		if wb > w {
			big = app("bvuge", SBool, b.T, bvLit(uint64(w), wb))
		} else {
			big = app("bvuge", SBool, cnt, bvLit(uint64(w), w))
		}
		if op == token.SHL {
			return mk(ite(big, bvLit(0, w), app("bvshl", sort, a.T, cnt)))
		}
		if signed {
			fill := ite(app("bvslt", SBool, a.T, bvLit(0, w)), bvLit(^uint64(0), w), bvLit(0, w))
			return mk(ite(big, fill, app("bvashr", sort, a.T, cnt)))
		}
		return mk(ite(big, bvLit(0, w), app("bvlshr", sort, a.T, cnt)))
	case token.LSS:
		return cmp("bvslt", "bvult")
	case token.LEQ:
		return cmp("bvsle", "bvule")
	case token.GTR:
		return cmp("bvsgt", "bvugt")
	case token.GEQ:
		return cmp("bvsge", "bvuge")
	}
	f.abstracted("binop " + op.String())
	return f.freshVal("binop", rt)
}

// resize converts a bit-vector to width w (sign- or zero-extending / truncating).
func (f *FnVC) resize(t Term, w int, signed bool) Term {
	from := bvWidth(t.Sort)
	switch {
	case from == w:
		return t
	case from > w:
		return Term{fmt.Sprintf("((_ extract %d 0) %s)", w-1, t.S), BV(w)}
	case signed:
		return Term{fmt.Sprintf("((_ sign_extend %d) %s)", w-from, t.S), BV(w)}
	default:
		return Term{fmt.Sprintf("((_ zero_extend %d) %s)", w-from, t.S), BV(w)}
	}
}

// equal builds Go's == for two values of the same type.
func (f *FnVC) equal(a, b Val) Term {
	if a.T.Sort == SStr {
		return f.strEqual(a.T, b.T)
	}
	if a.T.Sort == SSlice {
		// only comparison with nil is legal
		if b.T.S == "nil_slice" {
			return eq(app("lref", SRef, a.T), Term{"0", SRef})
		}
		if a.T.S == "nil_slice" {
			return eq(app("lref", SRef, b.T), Term{"0", SRef})
		}
	}
	if a.T.Sort != b.T.Sort {
		// interface vs concrete etc.: unknown
		f.abstracted("comparison across sorts")
		return f.SC.Declare("cmp", SBool)
	}
	return eq(a.T, b.T)
}

func (f *FnVC) strEqual(a, b Term) Term {
	if s, ok := f.E.strLits[a.S]; ok {
		return f.strEqConst(b, s)
	}
	if s, ok := f.E.strLits[b.S]; ok {
		return f.strEqConst(a, s)
	}
	if a.S == "empty_str" {
		return eq(app("slen", BV(64), b), u64(0))
	}
	if b.S == "empty_str" {
		return eq(app("slen", BV(64), a), u64(0))
	}
	return app("streq", SBool, a, b)
}

func (f *FnVC) strEqConst(a Term, s string) Term {
	cs := []Term{eq(app("slen", BV(64), a), u64(uint64(len(s))))}
	for i := 0; i < len(s); i++ {
		cs = append(cs, eq(sel(app("sarr", arraySort(BV(64), BV(8)), a), app("bvadd", BV(64), app("soff", BV(64), a), u64(uint64(i)))), bvLit(uint64(s[i]), 8)))
	}
	return and(cs...)
}

// strConcat: fresh string with quantified content definition.
func (f *FnVC) strConcat(st *State, a, b Term) Term {
	if a.S == "empty_str" {
		return b
	}
	if b.S == "empty_str" {
		return a
	}
	r := f.SC.Declare("cat", SStr)
	la, lb := app("slen", BV(64), a), app("slen", BV(64), b)
	f.SC.Assert(and(
		eq(app("soff", BV(64), r), u64(0)),
		eq(app("slen", BV(64), r), app("bvadd", BV(64), la, lb)),
	).S)
	// one axiom, triggered by any read of the result: r[j] is a's byte for j < |a|, b's byte for |a| <= j < |a|+|b|
	f.SC.Assert(fmt.Sprintf("(forall ((j (_ BitVec 64))) (! (and (=> (bvult j %s) (= (select (sarr %s) j) (select (sarr %s) (bvadd (soff %s) j)))) (=> (and (bvuge j %s) (bvult j (bvadd %s %s))) (= (select (sarr %s) j) (select (sarr %s) (bvadd (soff %s) (bvsub j %s)))))) :pattern ((select (sarr %s) j))))",
		la.S, r.S, a.S, a.S, la.S, la.S, lb.S, r.S, b.S, b.S, la.S, r.S))
	// constant parts are spelled out (no quantifier instantiation needed for them)
	if s, ok := f.E.strLits[a.S]; ok && len(s) <= 64 {
		for i := 0; i < len(s); i++ {
			f.SC.Assert(eq(sel(app("sarr", arraySort(BV(64), BV(8)), r), u64(uint64(i))), bvLit(uint64(s[i]), 8)).S)
		}
	}
	return r
}

func (f *FnVC) unop(st *State, x *ssa.UnOp) {
	switch x.Op {
	case token.MUL: // load
		if al, ok := x.X.(*ssa.Alloc); ok {
			// a captured variable that is assigned once keeps its value whatever happens in between
			if it, same := f.itFor(al.Block(), f.curNode); same {
				if v, ok := f.roCell[vkey{al, it}]; ok {
					v.Typ = x.Type()
					f.set(x, v)
					return
				}
			}
		}
		p := f.get(x.X)
		f.nilCheck(st, x.X, p, x.Pos())
		f.guardCheck(st, x.X, false, x.Pos())
		v := f.loadAt(st, p, x.Type())
		f.assumeKnown(st, v)
		f.typeInvariant(st, v)
		if g, ok := x.X.(*ssa.Global); ok && f.E.errSentinel(g) && v.T.Sort == SIface {
			// package-level error sentinel (set once by errors.New/fmt.Errorf in the initialiser, never reassigned): not nil
			f.assume(st, not(eq(v.T, Term{"nil_iface", SIface})))
		}
		v.GuardLock = f.guardOfField(x.X)
		f.set(x, v)
	case token.NOT:
		f.set(x, Val{T: not(f.get(x.X).T), Typ: x.Type()})
	case token.SUB:
		v := f.get(x.X)
		if bvWidth(v.T.Sort) == 0 || isFloat(v.Typ) {
			f.set(x, f.freshVal("neg", x.Type()))
			return
		}
		f.set(x, Val{T: app("bvneg", v.T.Sort, v.T), Typ: x.Type()})
	case token.XOR:
		v := f.get(x.X)
		f.set(x, Val{T: app("bvnot", v.T.Sort, v.T), Typ: x.Type()})
	case token.ARROW:
		f.abstracted("channel receive")
		f.set(x, f.freshVal("recv", x.Type()))
	default:
		f.set(x, f.freshVal("unop", x.Type()))
	}
}

func (f *FnVC) convert(st *State, v Val, to types.Type) Val {
	from := v.Typ
	ts := f.TE.Sort(to)
	switch {
	case isInteger(from) && isInteger(to):
		return Val{T: f.resize(v.T, bvWidth(ts), isSigned(from)), Typ: to}
	case isString(to) && v.T.Sort == SSlice:
		// string(b): snapshot of the bytes
		if s, ok := unalias(from).Underlying().(*types.Slice); ok && bvWidth(f.TE.Sort(s.Elem())) == 8 {
			h := f.comp(st, elemComp(BV(8)), arraySort(SRef, arraySort(BV(64), BV(8))))
			return Val{T: app("mkstr", SStr, sel(h, app("lref", SRef, v.T)), app("loff", BV(64), v.T), app("llen", BV(64), v.T)), Typ: to}
		}
	case v.T.Sort == SStr && ts == SSlice:
		if s, ok := unalias(to).Underlying().(*types.Slice); ok && bvWidth(f.TE.Sort(s.Elem())) == 8 {
			r := f.newRef(st)
			name := elemComp(BV(8))
			h := f.comp(st, name, arraySort(SRef, arraySort(BV(64), BV(8))))
			f.setComp(st, name, store(h, r, app("sarr", arraySort(BV(64), BV(8)), v.T)))
			n := app("slen", BV(64), v.T)
			return Val{T: app("mkslice", SSlice, r, app("soff", BV(64), v.T), n, n), Typ: to}
		}
	case isString(to) && isString(from):
		return Val{T: v.T, Typ: to}
	case isFloat(from) || isFloat(to):
		fn := fmt.Sprintf("fconv_%s_%s", sortKey(v.T.Sort), sanitize(shortType(to)))
		f.SC.DeclareFun(fn, []string{v.T.Sort}, ts)
		f.abstracted("float conversion (uninterpreted)")
		return Val{T: app(fn, ts, v.T), Typ: to}
	case v.T.Sort == ts:
		return Val{T: v.T, Typ: to}
	}
	f.abstracted("conversion " + shortType(from) + " -> " + shortType(to))
	return f.freshVal("conv", to)
}

// ---- interfaces ---------------------------------------------------------------------

func (f *FnVC) boxFn(t types.Type) (string, string) {
	sort := f.TE.Sort(t)
	name := "box_" + sanitize(shortType(t))
	if !f.SC.HasFun(name) {
		f.SC.DeclareFun(name, []string{sort}, SRef)
		f.SC.DeclareFun("un"+name, []string{SRef}, sort)
		f.SC.Assert(fmt.Sprintf("(forall ((x %s)) (! (= (un%s (%s x)) x) :pattern ((%s x))))", sort, name, name, name))
	}
	return name, sort
}

func (f *FnVC) makeInterface(st *State, x *ssa.MakeInterface) {
	v := f.get(x.X)
	id := f.TE.TypeID(x.X.Type())
	var ref Term
	if v.T.Sort == SRef {
		ref = v.T
	} else {
		name, _ := f.boxFn(x.X.Type())
		ref = app(name, SRef, v.T)
	}
	out := Val{T: app("mkiface", SIface, Term{fmt.Sprint(id), SInt}, ref), Typ: x.Type()}
	f.set(x, out)
	f.dynType[x] = x.X.Type()
}

func (f *FnVC) typeAssert(st *State, x *ssa.TypeAssert) {
	v := f.get(x.X)
	if v.T.Sort != SIface {
		f.set(x, f.freshVal("ta", x.Type()))
		return
	}
	var ok Term
	var res Val
	if isInterface(x.AssertedType) {
		// interface-to-interface: dynamic type implements? decided by an uninterpreted predicate on the tag
		pn := "impl_" + sanitize(shortType(x.AssertedType))
		f.SC.DeclareFun(pn, []string{SInt}, SBool)
		ok = and(not(eq(app("ityp", SInt, v.T), Term{"0", SInt})), app(pn, SBool, app("ityp", SInt, v.T)))
		// if the static dynamic type is known (MakeInterface in this function), decide it
		if mi, isMI := x.X.(*ssa.MakeInterface); isMI {
			if it, isI := unalias(x.AssertedType).Underlying().(*types.Interface); isI {
				ok = boolLit(types.Implements(mi.X.Type(), it))
			}
		}
		res = Val{T: v.T, Typ: x.AssertedType}
	} else {
		id := f.TE.TypeID(x.AssertedType)
		ok = eq(app("ityp", SInt, v.T), Term{fmt.Sprint(id), SInt})
		as := f.TE.Sort(x.AssertedType)
		if as == SRef {
			res = Val{T: app("iref", SRef, v.T), Typ: x.AssertedType}
		} else {
			name, _ := f.boxFn(x.AssertedType)
			res = Val{T: app("un"+name, as, app("iref", SRef, v.T)), Typ: x.AssertedType}
		}
	}
	if x.CommaOk {
		zero := f.TE.Zero(x.AssertedType)
		f.set(x, Val{Typ: x.Type(), Tuple: []Val{
			{T: f.SC.Define("ta", ite(ok, res.T, zero)), Typ: x.AssertedType},
			{T: f.SC.Define("ta_ok", ok), Typ: types.Typ[types.Bool]},
		}})
		return
	}
	if f.checks["typeassert"] {
		f.oblige("typeassert", f.srcKey(x.Pos()), st, ok, x.Pos(), "type assertion without comma-ok may panic")
	}
	f.assume(st, ok)
	f.set(x, res)
}

// ---- addresses -------------------------------------------------------------------------

func (f *FnVC) fieldAddr(st *State, x *ssa.FieldAddr) {
	base := f.get(x.X)
	pt := unalias(x.X.Type()).Underlying().(*types.Pointer).Elem()
	stt := pt.Underlying().(*types.Struct)
	ft := stt.Field(x.Field).Type()
	f.nilCheck(st, x.X, base, x.Pos())
	if base.Loc != nil {
		// inside a by-value aggregate held in an element/field: extend the selector path
		l := *base.Loc
		l.Sels = append(append([]int{}, l.Sels...), x.Field)
		l.SelTs = append(append([]types.Type{}, l.SelTs...), ft)
		_ = pt
		// the parent type of the first selector is the root type; remember parent types via SelTs of previous
		f.set(x, Val{T: f.SC.Declare("addr", SRef), Typ: x.Type(), Loc: &l})
		return
	}
	si := f.TE.StructInfo(pt)
	addr := f.fa(si.Name, x.Field, base.T)
	if isAggregate(ft) {
		f.set(x, Val{T: addr, Typ: x.Type()})
		return
	}
	f.set(x, Val{T: addr, Typ: x.Type(), Loc: &Loc{Kind: "field", Base: base.T, SName: si.Name, Field: x.Field, FType: ft}})
}

func (f *FnVC) boundsCheck(st *State, idx Term, n Term, pos token.Pos, what string) {
	if !f.checks["index"] {
		return
	}
	f.oblige("index", f.srcKey(pos), st, app("bvult", SBool, idx, n), pos, what)
}

func (f *FnVC) idx64(v Val) Term { return f.resize(v.T, 64, isSigned(v.Typ)) }

func (f *FnVC) indexAddr(st *State, x *ssa.IndexAddr) {
	base := f.get(x.X)
	i := f.idx64(f.get(x.Index))
	switch t := unalias(x.X.Type()).Underlying().(type) {
	case *types.Slice:
		f.boundsCheck(st, i, app("llen", BV(64), base.T), x.Pos(), "slice index out of range")
		abs := f.SC.Define("ix", app("bvadd", BV(64), app("loff", BV(64), base.T), i))
		ref := app("lref", SRef, base.T)
		f.set(x, Val{T: f.elemAddr(ref, abs), Typ: x.Type(), Loc: &Loc{Kind: "elem", Base: ref, Index: abs, EType: t.Elem()}, GuardLock: base.GuardLock})
	case *types.Pointer: // pointer to array
		at := t.Elem().Underlying().(*types.Array)
		f.boundsCheck(st, i, u64(uint64(at.Len())), x.Pos(), "array index out of range")
		if base.Loc != nil {
			f.abstracted("index into array inside by-value aggregate")
			f.set(x, f.freshVal("addr", x.Type()))
			return
		}
		f.set(x, Val{T: f.elemAddr(base.T, i), Typ: x.Type(), Loc: &Loc{Kind: "elem", Base: base.T, Index: i, EType: at.Elem()}})
	default:
		f.set(x, f.freshVal("addr", x.Type()))
	}
}

func (f *FnVC) index(st *State, x *ssa.Index) {
	base := f.get(x.X)
	i := f.idx64(f.get(x.Index))
	switch t := unalias(x.X.Type()).Underlying().(type) {
	case *types.Basic: // string
		f.boundsCheck(st, i, app("slen", BV(64), base.T), x.Pos(), "string index out of range")
		f.set(x, Val{T: sel(app("sarr", arraySort(BV(64), BV(8)), base.T), app("bvadd", BV(64), app("soff", BV(64), base.T), i)), Typ: x.Type()})
	case *types.Array:
		f.boundsCheck(st, i, u64(uint64(t.Len())), x.Pos(), "array index out of range")
		f.set(x, Val{T: sel(base.T, i), Typ: x.Type()})
	default:
		f.set(x, f.freshVal("index", x.Type()))
	}
}

func (f *FnVC) sliceOp(st *State, x *ssa.Slice) {
	base := f.get(x.X)
	var lo, hi, max *Term
	if x.Low != nil {
		t := f.idx64(f.get(x.Low))
		lo = &t
	}
	if x.High != nil {
		t := f.idx64(f.get(x.High))
		hi = &t
	}
	if x.Max != nil {
		t := f.idx64(f.get(x.Max))
		max = &t
	}
	zero := u64(0)
	check := func(lo, hi, capT Term) {
		if f.checks["slice"] {
			f.oblige("slice", f.srcKey(x.Pos()), st, and(app("bvule", SBool, lo, hi), app("bvule", SBool, hi, capT)), x.Pos(), "slice bounds out of range")
		}
	}
	switch t := unalias(x.X.Type()).Underlying().(type) {
	case *types.Basic: // string
		n := app("slen", BV(64), base.T)
		l, h := zero, n
		if lo != nil {
			l = *lo
		}
		if hi != nil {
			h = *hi
		}
		check(l, h, n)
		f.set(x, Val{T: app("mkstr", SStr, app("sarr", arraySort(BV(64), BV(8)), base.T), app("bvadd", BV(64), app("soff", BV(64), base.T), l), app("bvsub", BV(64), h, l)), Typ: x.Type()})
	case *types.Slice:
		n, c := app("llen", BV(64), base.T), app("lcap", BV(64), base.T)
		l, h, m := zero, n, c
		if lo != nil {
			l = *lo
		}
		if hi != nil {
			h = *hi
		}
		if max != nil {
			m = *max
			if f.checks["slice"] {
				f.oblige("slice", f.srcKey(x.Pos()), st, and(app("bvule", SBool, h, m), app("bvule", SBool, m, c)), x.Pos(), "slice max out of range")
			}
		}
		check(l, h, c)
		out := Val{T: app("mkslice", SSlice, app("lref", SRef, base.T), app("bvadd", BV(64), app("loff", BV(64), base.T), l), app("bvsub", BV(64), h, l), app("bvsub", BV(64), m, l)), Typ: x.Type(), GuardLock: base.GuardLock}
		f.set(x, out)
	case *types.Pointer: // *[N]T
		at := t.Elem().Underlying().(*types.Array)
		n := u64(uint64(at.Len()))
		l, h := zero, n
		if lo != nil {
			l = *lo
		}
		if hi != nil {
			h = *hi
		}
		check(l, h, n)
		f.set(x, Val{T: app("mkslice", SSlice, base.T, l, app("bvsub", BV(64), h, l), app("bvsub", BV(64), n, l)), Typ: x.Type()})
	default:
		f.set(x, f.freshVal("slice", x.Type()))
	}
}

func (f *FnVC) makeSlice(st *State, x *ssa.MakeSlice) {
	n := f.idx64(f.get(x.Len))
	c := f.idx64(f.get(x.Cap))
	if f.checks["make"] {
		o := f.oblige("make", f.srcKey(x.Pos()), st, and(app("bvsge", SBool, n, u64(0)), app("bvsle", SBool, n, c), app("bvsle", SBool, c, u64(1<<56))), x.Pos(), "make: length negative, above capacity, or beyond any addressable size (2^56)")
		_ = o
	}
	if f.checks["alloc"] {
		// allocation bound for decoders of untrusted input: a make of more than 2^23 elements (8 MiB of bytes, the largest
		// documented cap: codec.UncompressedCap) is out of proportion to any payload. A negative or inverted size is not flagged here: it raises a runtime error,
		// which the decoder's recover turns into a returned error.
		f.oblige("alloc", f.srcKey(x.Pos()), st, app("bvsle", SBool, c, u64(1<<23)), x.Pos(), "make: capacity above 2^23 elements (allocation out of proportion to the payload)")
	}
	// after a successful make the sizes are in range
	f.assume(st, and(app("bvsge", SBool, n, u64(0)), app("bvsle", SBool, n, c), app("bvule", SBool, c, u64(1<<56))))
	r := f.newRef(st)
	et := x.Type().Underlying().(*types.Slice).Elem()
	sort := f.TE.Sort(et)
	name := elemComp(sort)
	h := f.comp(st, name, arraySort(SRef, arraySort(BV(64), sort)))
	f.setComp(st, name, store(h, r, f.TE.Zero(types.NewArray(et, 0))))
	f.set(x, Val{T: app("mkslice", SSlice, r, u64(0), n, c), Typ: x.Type()})
	f.makeSites = append(f.makeSites, makeSite{reach: st.Reach, n: n, c: c, pos: x.Pos(), elem: et})
}

type makeSite struct {
	reach Term
	n, c  Term
	pos   token.Pos
	elem  types.Type
}

func (f *FnVC) nilCheck(st *State, src ssa.Value, p Val, pos token.Pos) {
	if !f.checks["nil"] {
		return
	}
	switch src.(type) {
	case *ssa.Parameter, *ssa.Alloc, *ssa.FieldAddr, *ssa.IndexAddr, *ssa.Global, *ssa.FreeVar:
		return
	}
	if p.Loc != nil {
		return
	}
	f.oblige("nil", f.srcKey(pos), st, not(eq(p.T, Term{"0", SRef})), pos, "nil pointer dereference")
}
