package vc

import "golang.org/x/tools/go/ssa"

// singleAssignCell reports whether the variable cell is assigned exactly once (its initialisation in the allocating
// function) and is otherwise only read, also inside the closures that capture it. Such a cell always holds the
// initial value, whatever is havocked in between.
func singleAssignCell(al *ssa.Alloc) bool {
	if al.Referrers() == nil {
		return false
	}
	stores := 0
	for _, r := range *al.Referrers() {
		switch x := r.(type) {
		case *ssa.Store:
			if x.Addr != ssa.Value(al) {
				return false // the address itself is stored somewhere
			}
			stores++
		case *ssa.UnOp, *ssa.DebugRef:
		case *ssa.MakeClosure:
			fn, ok := x.Fn.(*ssa.Function)
			if !ok {
				return false
			}
			for i, b := range x.Bindings {
				if b == ssa.Value(al) {
					if i >= len(fn.FreeVars) || !freeVarReadOnly(fn.FreeVars[i], 0) {
						return false
					}
				}
			}
		default:
			return false
		}
	}
	return stores == 1
}

func freeVarReadOnly(fv *ssa.FreeVar, depth int) bool {
	if depth > 4 || fv.Referrers() == nil {
		return false
	}
	for _, r := range *fv.Referrers() {
		switch x := r.(type) {
		case *ssa.UnOp, *ssa.DebugRef:
		case *ssa.MakeClosure: // captured again by a nested closure
			fn, ok := x.Fn.(*ssa.Function)
			if !ok {
				return false
			}
			for i, b := range x.Bindings {
				if b == ssa.Value(fv) {
					if i >= len(fn.FreeVars) || !freeVarReadOnly(fn.FreeVars[i], depth+1) {
						return false
					}
				}
			}
		default:
			return false
		}
	}
	return true
}
