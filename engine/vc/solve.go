package vc

import (
	"bytes"
	"context"
	"fmt"
	"os"
	"os/exec"
	"path/filepath"
	"regexp"
	"strings"
	"sync"
	"time"
)

// Outcome of one obligation.
type Outcome struct {
	Obl     *Obligation
	Status  string // "discharged", "refuted" (sat), "unknown", "canary-ok", "canary-vacuous", "canary-inconclusive", "structural-ok", "structural-fail"
	Solver  string
	Seconds float64
	Model   map[string]string
	Output  string
	File    string
	// CandidateModel: model of the query with quantified assumptions dropped (only when the full query is undecided)
	CandidateModel map[string]string
}

// relaxedModel drops every asserted quantified formula and asks for a model.
func relaxedModel(file string, timeoutS int) map[string]string {
	b, err := os.ReadFile(file)
	if err != nil {
		return nil
	}
	var out []string
	for _, l := range strings.Split(string(b), "\n") {
		if strings.HasPrefix(l, "(assert ") && strings.Contains(l, "(forall ") && !strings.HasPrefix(l, "(assert (not ") {
			continue
		}
		out = append(out, l)
	}
	rf := strings.TrimSuffix(file, ".smt2") + ".relaxed.smt2"
	if os.WriteFile(rf, []byte(strings.Join(out, "\n")), 0o644) != nil {
		return nil
	}
	t := timeoutS
	if t > 10 {
		t = 10
	}
	v, o := runSolver(context.Background(), solvers[0], rf, t)
	if v != "sat" {
		return nil
	}
	return parseModel(o)
}

// canarySatWithoutLayoutAxioms re-runs a vacuity probe with the engine-generated fa_* injectivity axioms removed.
func canarySatWithoutLayoutAxioms(file string) bool {
	b, err := os.ReadFile(file)
	if err != nil {
		return false
	}
	var out []string
	dropped := 0
	for _, l := range strings.Split(string(b), "\n") {
		if strings.HasPrefix(l, "(assert (forall ((x Int)) (! (and (= (fa_") {
			dropped++
			continue
		}
		out = append(out, l)
	}
	if dropped == 0 {
		return false
	}
	rf := strings.TrimSuffix(file, ".smt2") + ".canary.smt2"
	if os.WriteFile(rf, []byte(strings.Join(out, "\n")), 0o644) != nil {
		return false
	}
	v, _ := runSolver(context.Background(), solvers[0], rf, 5)
	return v == "sat"
}

type solverCmd struct {
	name string
	argv func(file string, timeoutS int) []string
}

var solvers = []solverCmd{
	{"z3-5.1.0", func(f string, t int) []string { return []string{"z3-new", fmt.Sprintf("-T:%d", t), f} }},
	{"z3-4.8.12", func(f string, t int) []string { return []string{"/usr/bin/z3", fmt.Sprintf("-T:%d", t), f} }},
	{"cvc5-1.0", func(f string, t int) []string {
		return []string{"cvc5", "--lang=smt2", fmt.Sprintf("--tlimit=%d", t*1000), "--produce-models", f}
	}},
}

// WriteSMT writes the SMT-LIB file of an obligation.
func WriteSMT(o *Obligation, path string) error {
	var b bytes.Buffer
	b.WriteString("; obligation " + o.Name + "\n; " + o.Kind + " at " + o.Pos + "\n; " + strings.ReplaceAll(o.Desc, "\n", " ") + "\n")
	b.WriteString("(set-option :produce-models true)\n(set-logic ALL)\n")
	for _, l := range o.SC.Lines[:o.Prefix] {
		b.WriteString(l)
		b.WriteByte('\n')
	}
	b.WriteString("(assert " + o.Reach.S + ")\n")
	b.WriteString("(assert (not " + o.Goal.S + "))\n")
	b.WriteString("(check-sat)\n")
	var vals []string
	for _, in := range o.Inputs {
		switch {
		case in.Sort == SBool || in.Sort == SInt || bvWidth(in.Sort) > 0:
			vals = append(vals, in.Term)
		case in.Sort == SStr:
			vals = append(vals, fmt.Sprintf("(slen %s)", in.Term))
			for i := 0; i < 24; i++ {
				vals = append(vals, fmt.Sprintf("(select (sarr %s) (bvadd (soff %s) #x%016x))", in.Term, in.Term, i))
			}
		case in.Sort == SSlice:
			vals = append(vals, fmt.Sprintf("(llen %s)", in.Term), fmt.Sprintf("(lcap %s)", in.Term), fmt.Sprintf("(lref %s)", in.Term))
		case in.Sort == SIface:
			vals = append(vals, fmt.Sprintf("(ityp %s)", in.Term), fmt.Sprintf("(iref %s)", in.Term))
		}
	}
	if len(vals) > 0 {
		b.WriteString("(get-value (" + strings.Join(vals, " ") + "))\n")
	}
	return os.WriteFile(path, b.Bytes(), 0o644)
}

func runSolver(ctx context.Context, sc solverCmd, file string, timeoutS int) (string, string) {
	argv := sc.argv(file, timeoutS)
	cctx, cancel := context.WithTimeout(ctx, time.Duration(timeoutS+2)*time.Second)
	defer cancel()
	cmd := exec.CommandContext(cctx, argv[0], argv[1:]...)
	var out bytes.Buffer
	cmd.Stdout = &out
	cmd.Stderr = &out
	_ = cmd.Run()
	s := out.String()
	// the verdict is the first line that is not a warning
	for strings.HasPrefix(s, "WARNING") {
		if i := strings.Index(s, "\n"); i >= 0 {
			s = s[i+1:]
		} else {
			break
		}
	}
	first := strings.TrimSpace(strings.SplitN(s, "\n", 2)[0])
	switch first {
	case "sat", "unsat", "unknown":
		return first, s
	}
	if strings.HasPrefix(first, "(error") {
		return "error", s
	}
	if strings.Contains(s, "timeout") || cctx.Err() != nil {
		return "timeout", s
	}
	return "error", s
}

var valRe = regexp.MustCompile(`\((\([^()]*(?:\([^()]*\)[^()]*)*\)|[^\s()]+)\s+(#x[0-9a-fA-F]+|#b[01]+|true|false|\(- \d+\)|\d+)\)`)

func parseModel(out string) map[string]string {
	m := map[string]string{}
	for _, mm := range valRe.FindAllStringSubmatch(out, -1) {
		m[mm[1]] = mm[2]
	}
	return m
}

// Solve decides one obligation: quick single-solver attempt, then a race of all solvers.
func Solve(o *Obligation, dir string, idx int, timeoutS int) *Outcome {
	res := &Outcome{Obl: o}
	if o.Structural {
		if o.StructOK {
			res.Status = "structural-ok"
		} else {
			res.Status = "structural-fail"
		}
		return res
	}
	if !o.ExpectSat && o.Goal.S == "true" {
		res.Status, res.Solver = "discharged", "trivial"
		return res
	}
	file := filepath.Join(dir, fmt.Sprintf("o%04d.smt2", idx))
	if err := WriteSMT(o, file); err != nil {
		res.Status, res.Output = "unknown", err.Error()
		return res
	}
	res.File = file
	if o.ExpectSat && timeoutS > 3 {
		timeoutS = 3 // vacuity canaries: a quick satisfiability probe, inconclusive is acceptable
	}
	start := time.Now()
	finish := func(verdict, solver, out string) *Outcome {
		res.Seconds = time.Since(start).Seconds()
		res.Solver = solver
		res.Output = out
		switch {
		case o.ExpectSat && verdict == "sat":
			res.Status = "canary-ok"
		case o.ExpectSat && verdict == "unsat":
			res.Status = "canary-vacuous"
		case o.ExpectSat:
			res.Status = "canary-inconclusive"
			// The engine's own object-layout axioms (sub-object addresses are injective, negative and tagged) are universally
			// quantified and keep solvers from answering "sat". They constrain only the fa_* address functions and are
			// satisfiable by construction, so the probe is repeated without them (recorded as such).
			if canarySatWithoutLayoutAxioms(file) {
				res.Status = "canary-ok"
				res.Solver = solver + " (object-layout axioms dropped)"
			}
		case verdict == "unsat":
			res.Status = "discharged"
		case verdict == "sat":
			res.Status = "refuted"
			res.Model = parseModel(out)
		default:
			res.Status = "unknown"
		}
		return res
	}
	// stage 1: newest z3 alone, short budget
	q := 2
	if timeoutS < q {
		q = timeoutS
	}
	v, out := runSolver(context.Background(), solvers[0], file, q)
	if v == "sat" || v == "unsat" {
		return finish(v, solvers[0].name, out)
	}
	// stage 2: race
	ctx, cancel := context.WithCancel(context.Background())
	defer cancel()
	type r struct{ v, out, name string }
	ch := make(chan r, len(solvers))
	for _, sc := range solvers {
		sc := sc
		go func() {
			v, out := runSolver(ctx, sc, file, timeoutS)
			ch <- r{v, out, sc.name}
		}()
	}
	var all []string
	nerr := 0
	for range solvers {
		x := <-ch
		all = append(all, x.name+": "+firstLines(x.out, 3))
		if x.v == "sat" || x.v == "unsat" {
			cancel()
			return finish(x.v, x.name, x.out)
		}
		if x.v == "error" {
			nerr++
		}
	}
	fin := finish("unknown", "none", strings.Join(all, "\n"))
	if nerr == len(solvers) {
		fin.Status = "solver-error"
		return fin
	}
	// undecided with quantified assumptions in the context: look for a *candidate* counterexample with those
	// assumptions dropped (a weaker context: a model found here is only a candidate and must be replayed).
	if !o.ExpectSat {
		if m := relaxedModel(file, timeoutS); m != nil {
			fin.CandidateModel = m
		}
	}
	return fin
}

func firstLines(s string, n int) string {
	ls := strings.Split(strings.TrimSpace(s), "\n")
	if len(ls) > n {
		ls = ls[:n]
	}
	return strings.Join(ls, " | ")
}

// SolveAll runs the obligations with a worker pool.
func SolveAll(obls []*Obligation, dir string, timeoutS, workers int) []*Outcome {
	out := make([]*Outcome, len(obls))
	var wg sync.WaitGroup
	sem := make(chan struct{}, workers)
	for i, o := range obls {
		wg.Add(1)
		sem <- struct{}{}
		go func(i int, o *Obligation) {
			defer wg.Done()
			defer func() { <-sem }()
			out[i] = Solve(o, dir, i, timeoutS)
		}(i, o)
	}
	wg.Wait()
	return out
}
