package vc

import (
	"fmt"
	"go/constant"
	"go/token"
	"go/types"
	"math"
	"sort"

	"golang.org/x/tools/go/ssa"
)

func (f *FnVC) constVal(c *ssa.Const) Val {
	t := c.Type()
	sort := f.TE.Sort(t)
	if c.Value == nil {
		return Val{T: f.TE.zeroOfSort(sort, t), Typ: t}
	}
	switch c.Value.Kind() {
	case constant.Bool:
		return Val{T: boolLit(constant.BoolVal(c.Value)), Typ: t}
	case constant.Int:
		w := bvWidth(sort)
		if w == 0 {
			if isFloat(t) {
				fl, _ := constant.Float64Val(c.Value)
				return f.floatConst(fl, t)
			}
			return f.freshVal("const", t)
		}
		if isFloat(t) {
			fl, _ := constant.Float64Val(c.Value)
			return f.floatConst(fl, t)
		}
		if v, ok := constant.Int64Val(c.Value); ok {
			return Val{T: bvLit(uint64(v), w), Typ: t}
		}
		if v, ok := constant.Uint64Val(c.Value); ok {
			return Val{T: bvLit(v, w), Typ: t}
		}
	case constant.Float:
		fl, _ := constant.Float64Val(c.Value)
		return f.floatConst(fl, t)
	case constant.String:
		return Val{T: f.strConst(constant.StringVal(c.Value)), Typ: t}
	}
	return f.freshVal("const", t)
}

func (f *FnVC) floatConst(fl float64, t types.Type) Val {
	if bvWidth(f.TE.Sort(t)) == 32 {
		return Val{T: bvLit(uint64(math.Float32bits(float32(fl))), 32), Typ: t}
	}
	return Val{T: bvLit(math.Float64bits(fl), 64), Typ: t}
}

// strConst builds a constant string term (store chain on a constant array).
func (f *FnVC) strConst(s string) Term {
	if s == "" {
		return Term{"empty_str", SStr}
	}
	key := "strconst:" + s
	if t, ok := f.E.strCache[f][key]; ok {
		return t
	}
	arr := "((as const (Array (_ BitVec 64) (_ BitVec 8))) #x00)"
	for i := 0; i < len(s); i++ {
		arr = fmt.Sprintf("(store %s %s %s)", arr, bvLit(uint64(i), 64).S, bvLit(uint64(s[i]), 8).S)
	}
	t := f.SC.Define("str", Term{fmt.Sprintf("(mkstr %s %s %s)", arr, bvLit(0, 64).S, bvLit(uint64(len(s)), 64).S), SStr})
	if f.E.strCache[f] == nil {
		f.E.strCache[f] = map[string]Term{}
	}
	f.E.strCache[f][key] = t
	f.E.strLits[t.S] = s
	return t
}

func (f *FnVC) globalVal(g *ssa.Global) Val {
	name := "glob_" + sanitize(g.Pkg.Pkg.Name()+"."+g.Name())
	if !f.SC.HasFun(name) {
		f.SC.DeclareFun(name, nil, SRef)
		f.SC.Assert(fmt.Sprintf("(< %s 0)", name))
	}
	return Val{T: Term{name, SRef}, Typ: g.Type()}
}

func (f *FnVC) funcRef(fn *ssa.Function) Term {
	name := "fn_" + sanitize(FuncKey(fn))
	if !f.SC.HasFun(name) {
		f.SC.DeclareFun(name, nil, SRef)
		f.SC.Assert(fmt.Sprintf("(< %s 0)", name))
	}
	return Term{name, SRef}
}

// fa returns the ref of the sub-object (embedded struct / array / addressable field) f of struct object base.
func (f *FnVC) fa(sname string, field int, base Term) Term {
	fn := fmt.Sprintf("fa_%s_%d", sname, field)
	if !f.faDecl[fn] {
		f.faDecl[fn] = true
		f.SC.DeclareFun(fn, []string{SRef}, SRef)
		f.SC.DeclareFun(fn+"_inv", []string{SRef}, SRef)
		if !f.SC.HasFun("fa_tag") {
			f.SC.DeclareFun("fa_tag", []string{SRef}, SInt)
		}
		id := len(f.faDecl)
		f.SC.Assert(fmt.Sprintf("(forall ((x Int)) (! (and (= (%s_inv (%s x)) x) (< (%s x) 0) (= (fa_tag (%s x)) %d)) :pattern ((%s x))))", fn, fn, fn, fn, id, fn))
	}
	return app(fn, SRef, base)
}

func (f *FnVC) elemAddr(ref, idx Term) Term {
	if !f.SC.HasFun("ea") {
		f.SC.DeclareFun("ea", []string{SRef, BV(64)}, SRef)
	}
	return app("ea", SRef, ref, idx)
}

func fieldComp(sname string, field int) string { return fmt.Sprintf("F$%s$%d", sname, field) }
func elemComp(sort string) string             { return "E$" + sortKey(sort) }
func cellComp(sort string) string             { return "C$" + sortKey(sort) }

func isAggregate(t types.Type) bool { return isStruct(t) || isArray(t) }

// loadAt reads a value of Go type t stored at pointer p.
func (f *FnVC) loadAt(st *State, p Val, t types.Type) Val {
	if p.Loc != nil {
		root := f.loadLocRoot(st, p.Loc)
		cur := root
		for i, s := range p.Loc.Sels {
			var parent types.Type
			if i == 0 {
				parent = f.locRootType(p.Loc)
			} else {
				parent = p.Loc.SelTs[i-1]
			}
			si := f.TE.StructInfo(parent)
			f.TE.declareStruct(si)
			cur = app(fmt.Sprintf("f%d_%s", s, si.Name), si.Fields[s], cur)
		}
		return Val{T: cur, Typ: t}
	}
	return f.loadObj(st, p.T, t)
}

func (f *FnVC) locRootType(l *Loc) types.Type {
	if l.Kind == "field" {
		return l.FType
	}
	return l.EType
}

func (f *FnVC) loadLocRoot(st *State, l *Loc) Term {
	switch l.Kind {
	case "field":
		sort := f.TE.Sort(l.FType)
		h := f.comp(st, fieldComp(l.SName, l.Field), arraySort(SRef, sort))
		return sel(h, l.Base)
	case "elem":
		sort := f.TE.Sort(l.EType)
		h := f.comp(st, elemComp(sort), arraySort(SRef, arraySort(BV(64), sort)))
		return sel(sel(h, l.Base), l.Index)
	}
	panic("bad loc")
}

func (f *FnVC) storeLocRoot(st *State, l *Loc, v Term) {
	switch l.Kind {
	case "field":
		sort := f.TE.Sort(l.FType)
		name := fieldComp(l.SName, l.Field)
		h := f.comp(st, name, arraySort(SRef, sort))
		f.setComp(st, name, store(h, l.Base, v))
	case "elem":
		sort := f.TE.Sort(l.EType)
		name := elemComp(sort)
		h := f.comp(st, name, arraySort(SRef, arraySort(BV(64), sort)))
		f.setComp(st, name, store(h, l.Base, store(sel(h, l.Base), l.Index, v)))
	}
}

// loadObj reads the object of type t that ref points to (plain reference, no Loc).
func (f *FnVC) loadObj(st *State, ref Term, t types.Type) Val {
	t = unalias(t)
	switch u := t.Underlying().(type) {
	case *types.Struct:
		si := f.TE.StructInfo(t)
		f.TE.declareStruct(si)
		if u.NumFields() == 0 {
			return Val{T: Term{"mk_" + si.Name, "S_" + si.Name}, Typ: t}
		}
		var args []Term
		for i := 0; i < u.NumFields(); i++ {
			ft := u.Field(i).Type()
			if isAggregate(ft) {
				args = append(args, f.loadObj(st, f.fa(si.Name, i, ref), ft).T)
			} else {
				h := f.comp(st, fieldComp(si.Name, i), arraySort(SRef, f.TE.Sort(ft)))
				args = append(args, sel(h, ref))
			}
		}
		return Val{T: app("mk_"+si.Name, "S_"+si.Name, args...), Typ: t}
	case *types.Array:
		sort := f.TE.Sort(u.Elem())
		h := f.comp(st, elemComp(sort), arraySort(SRef, arraySort(BV(64), sort)))
		return Val{T: sel(h, ref), Typ: t}
	}
	sort := f.TE.Sort(t)
	h := f.comp(st, cellComp(sort), arraySort(SRef, sort))
	return Val{T: sel(h, ref), Typ: t}
}

func (f *FnVC) storeObj(st *State, ref Term, v Val, t types.Type) {
	t = unalias(t)
	switch u := t.Underlying().(type) {
	case *types.Struct:
		si := f.TE.StructInfo(t)
		f.TE.declareStruct(si)
		for i := 0; i < u.NumFields(); i++ {
			ft := u.Field(i).Type()
			fv := app(fmt.Sprintf("f%d_%s", i, si.Name), si.Fields[i], v.T)
			if isAggregate(ft) {
				f.storeObj(st, f.fa(si.Name, i, ref), Val{T: fv, Typ: ft}, ft)
			} else {
				name := fieldComp(si.Name, i)
				h := f.comp(st, name, arraySort(SRef, f.TE.Sort(ft)))
				f.setComp(st, name, store(h, ref, fv))
			}
		}
		return
	case *types.Array:
		sort := f.TE.Sort(u.Elem())
		name := elemComp(sort)
		h := f.comp(st, name, arraySort(SRef, arraySort(BV(64), sort)))
		f.setComp(st, name, store(h, ref, v.T))
		return
	}
	sort := f.TE.Sort(t)
	name := cellComp(sort)
	h := f.comp(st, name, arraySort(SRef, sort))
	f.setComp(st, name, store(h, ref, v.T))
}

func (f *FnVC) storeAt(st *State, p Val, v Val, t types.Type) {
	if p.Loc != nil {
		if len(p.Loc.Sels) == 0 {
			f.storeLocRoot(st, p.Loc, v.T)
			return
		}
		root := f.loadLocRoot(st, p.Loc)
		f.storeLocRoot(st, p.Loc, f.updatePath(root, f.locRootType(p.Loc), p.Loc.Sels, p.Loc.SelTs, v.T))
		return
	}
	f.storeObj(st, p.T, v, t)
}

// updatePath returns cur with the by-value field path sels replaced by v.
func (f *FnVC) updatePath(cur Term, curT types.Type, sels []int, selTs []types.Type, v Term) Term {
	if len(sels) == 0 {
		return v
	}
	si := f.TE.StructInfo(curT)
	f.TE.declareStruct(si)
	var args []Term
	for i := range si.Fields {
		fv := app(fmt.Sprintf("f%d_%s", i, si.Name), si.Fields[i], cur)
		if i == sels[0] {
			fv = f.updatePath(fv, selTs[0], sels[1:], selTs[1:], v)
		}
		args = append(args, fv)
	}
	return app("mk_"+si.Name, "S_"+si.Name, args...)
}

// newRef allocates a fresh object reference.
func (f *FnVC) newRef(st *State) Term {
	a := f.comp(st, "alloc", SInt)
	r := f.SC.Define("ref", Term{fmt.Sprintf("(+ %s 1)", a.S), SRef})
	st.Heap["alloc"] = r
	// ghost fields of a fresh object start at their zero value
	var gnames []string
	for g := range f.E.GhostFields {
		gnames = append(gnames, g)
	}
	sort.Strings(gnames)
	for _, g := range gnames {
		t, err := f.specType(&SEnv{f: f}, f.E.GhostFields[g])
		if err != nil {
			continue
		}
		s := f.TE.Sort(t)
		h := f.comp(st, "G$"+g, arraySort(SRef, s))
		f.setComp(st, "G$"+g, store(h, r, f.TE.Zero(t)))
	}
	return r
}

// knownRef assumes that a reference read from the heap / returned by a call is not "from the future".
func (f *FnVC) knownRef(st *State, r Term) {
	a := f.comp(st, "alloc", SInt)
	f.assume(st, Term{fmt.Sprintf("(<= %s %s)", r.S, a.S), SBool})
}

func (f *FnVC) assumeKnown(st *State, v Val) {
	switch v.T.Sort {
	case SRef:
		f.knownRef(st, v.T)
	case SSlice:
		f.knownRef(st, app("lref", SRef, v.T))
	case SIface:
		f.knownRef(st, app("iref", SRef, v.T))
	}
}

// zeroInit initialises a freshly allocated object of type t at ref.
func (f *FnVC) zeroInit(st *State, ref Term, t types.Type) {
	f.storeObj(st, ref, Val{T: f.TE.Zero(t), Typ: t}, t)
}

var _ = token.NoPos
