package vc

// Replay tries to reproduce a refuted obligation on the real code (implemented in replay_impl.go when available).
func Replay(e *Engine, o *Outcome, repo string) (bool, map[string]any) {
	return replayImpl(e, o, repo)
}
