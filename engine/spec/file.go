package spec

import (
	"fmt"
	"regexp"
	"strconv"
	"strings"
)

// Clause is one requires/ensures/invariant/assert with an optional [label].
type Clause struct {
	Kind  string
	Label string
	Expr  *Expr
	Text  string
	File  string
	Line  int
}

// LoopSpec is the contract of the k-th loop (source order of loop headers) of a function.
type LoopSpec struct {
	Invariants []Clause
	Decreases  *Clause
	Unroll     int // >0: unroll this many iterations with an unwinding assertion
}

// AtCall attaches an obligation/assumption/label to call sites matching Pattern.
type AtCall struct {
	Pattern string // callee name pattern (suffix match on the callee key)
	ArgType string // optional: type text that one argument's dynamic type must end with
	Ordinal int    // 0 = all matches, k>0 = k-th match in source order
	Label   string // optional name for res(label)/called(label)/arg(label,i)
	Action  string // "assert","assume","label","havoc-none"
	Clause  Clause
}

// FuncContract is the contract block of one function.
type FuncContract struct {
	Target    string
	Key       string
	Trusted   bool
	Props     []string
	Mode      string
	Requires  []Clause
	Ensures   []Clause
	Modifies  []*Expr
	HasMod    bool
	Loops     map[int]*LoopSpec
	AtCalls   []*AtCall
	AtStores  []*AtCall // Pattern = field name
	Pure      bool
	Inline    bool
	NoBody    bool // contract used at call sites only; body not verified (reported as assumed)
	Ghosts    []string
	Why       string
	File      string
	Line      int
	Panics    []Clause // "panics when"
	MayPanic  bool
	SplitPaths bool // postconditions are checked per incoming path of the return block (one obligation each)
	Terminate bool
	Reach     bool // require reachability canary
	Params    []string
	Checks    []string
	ErrPanics bool // explicit panics are allowed iff the panic value is an error (util.Recover turns those into errors)
	Swept     bool // synthesised by a sweep directive (safety obligations only)
	GhostPre  bool // callee preconditions about the ghost stream model are assumed at this function's call sites (as in swept functions)
}

// Sweep puts every function of the given name in the packages below a path prefix under an empty contract: only the
// implicit safety obligations (bounds, nil, make sizes, division, type assertions, panic values) are generated.
type Sweep struct {
	PkgPrefix string
	Name      string
	Reachable bool // also every module function (below ReachPrefix) reachable from the named ones
	Props     []string
	File      string
	Line      int
}

// SpecFn is a spec function / predicate: a named expression over parameters.
type SpecFn struct {
	Name   string
	Params []Param
	Result string // type text ("bool" for predicates)
	Body   *Expr
	Text   string
	File   string
	Line   int
}

type Param struct{ Name, Type string }

// Guard declares fields guarded by a lock field of the same struct.
type Guard struct {
	Struct string // e.g. "Proxy" or "(*Proxy)" normalised to type name
	Lock   string // field path of the mutex inside the struct, e.g. "muP" or "mu"
	Fields []string
	Pkg    string
	File   string
	Line   int
}

// Monitor is an invariant over guarded state, assumed at acquire and asserted at release.
type Monitor struct {
	Struct string
	Lock   string
	Recv   string // name the invariant uses for the struct pointer
	Clause Clause
	Pkg    string
}

// Census is a structural obligation: calls to Callee appear only in the listed functions.
type Census struct {
	Callee string
	OnlyIn []string
	Props  []string
	Pkg    string
	File   string
	Line   int
}

// File is a parsed contract file.
type File struct {
	Pkg      string // package path the file belongs to ("" for trusted files)
	Funcs    []*FuncContract
	SpecFns  []*SpecFn
	Guards   []*Guard
	Monitors []*Monitor
	Census   []*Census
	Axioms   []Clause
	Ghosts   map[string]string
	Regexes  []*RegexDecl
	Structs  []*StructDecl
	Sweeps   []*Sweep
	CodecPairs []*CodecPairs
}

// CodecPairs declares that every type below the package prefix with an Encode and a Decode method is checked as a pair.
type CodecPairs struct {
	PkgPrefix string
	Props     []string
	File      string
	Line      int
}

var keywords = map[string]bool{
	"func": true, "trusted": true, "props": true, "mode": true, "requires": true, "ensures": true,
	"modifies": true, "loop": true, "at-call": true, "at-store": true, "inline": true, "pure": true,
	"spec": true, "axiom": true, "guarded_by": true, "monitor": true, "census": true, "panics": true,
	"why:": true, "regexlang": true, "recovers": true, "closure-only": true, "recovers-errors": true, "passed-only": true, "uses-param": true, "params": true, "ghostfield": true, "ufn": true, "checks": true, "nobody": true, "ghost": true, "maypanic": true, "splitpaths": true, "reach": true, "sweep": true, "sweep-reachable": true, "ghostpre": true, "codec-pairs": true, "errpanics": true,
}

type rawLine struct {
	text string
	line int
}

// ParseFile parses the //@ lines of a file's text.
func ParseFile(filename, pkg, src string) (*File, error) {
	var raws []rawLine
	for i, l := range strings.Split(src, "\n") {
		t := strings.TrimSpace(l)
		if !strings.HasPrefix(t, "//@") {
			continue
		}
		body := strings.TrimSpace(t[3:])
		if body == "" {
			continue
		}
		first := strings.Fields(body)[0]
		if keywords[first] || len(raws) == 0 {
			raws = append(raws, rawLine{body, i + 1})
		} else {
			raws[len(raws)-1].text += " " + body
		}
	}
	f := &File{Pkg: pkg, Ghosts: map[string]string{}}
	var cur *FuncContract
	for _, r := range raws {
		fields := strings.Fields(r.text)
		kw := fields[0]
		rest := strings.TrimSpace(r.text[len(kw):])
		errf := func(format string, a ...any) error {
			return fmt.Errorf("%s:%d: %s", filename, r.line, fmt.Sprintf(format, a...))
		}
		mkClause := func(kind, text string) (Clause, error) {
			c := Clause{Kind: kind, File: filename, Line: r.line}
			text = strings.TrimSpace(text)
			if strings.HasPrefix(text, "[") {
				if j := strings.Index(text, "]"); j > 0 {
					c.Label = text[1:j]
					text = strings.TrimSpace(text[j+1:])
				}
			}
			c.Text = text
			e, err := ParseExpr(text)
			if err != nil {
				return c, errf("%v", err)
			}
			c.Expr = e
			return c, nil
		}
		switch kw {
		case "trusted", "func", "pure":
			t := rest
			ct := &FuncContract{File: filename, Line: r.line, Loops: map[int]*LoopSpec{}}
			if kw == "trusted" {
				ct.Trusted = true
				ct.NoBody = true
				t = strings.TrimSpace(strings.TrimPrefix(t, "func"))
				t = strings.TrimSpace(strings.TrimPrefix(t, "method"))
			}
			if kw == "pure" {
				ct.Pure = true
				ct.NoBody = true
				if pkg == "" {
					ct.Trusted = true
				}
				t = strings.TrimSpace(strings.TrimPrefix(t, "func"))
			}
			ct.Target = t
			f.Funcs = append(f.Funcs, ct)
			cur = ct
		case "params":
			for _, n := range strings.Split(rest, ",") {
				if n = strings.TrimSpace(n); n != "" {
					cur.Params = append(cur.Params, n)
				}
			}
		case "props":
			if cur == nil {
				return nil, errf("props outside func")
			}
			for _, p := range fields[1:] {
				cur.Props = append(cur.Props, strings.Trim(p, ","))
			}
		case "mode":
			cur.Mode = rest
		case "inline":
			cur.Inline = true
		case "nobody":
			cur.NoBody = true
		case "maypanic":
			cur.MayPanic = true
		case "errpanics":
			cur.ErrPanics = true
		case "ghostpre":
			cur.GhostPre = true
		case "codec-pairs":
			// codec-pairs <package path prefix> ; props C04
			main, props, _ := strings.Cut(rest, ";")
			cp := &CodecPairs{PkgPrefix: strings.TrimSpace(main), File: filename, Line: r.line}
			pf := strings.Fields(props)
			if len(pf) > 1 {
				cp.Props = pf[1:]
			}
			f.CodecPairs = append(f.CodecPairs, cp)
			cur = nil
		case "sweep", "sweep-reachable":
			// sweep <package path prefix> <function or method name> ; props C05
			main, props, _ := strings.Cut(rest, ";")
			mf := strings.Fields(main)
			if len(mf) != 2 {
				return nil, errf("sweep needs <package path prefix> <name>")
			}
			sw := &Sweep{PkgPrefix: mf[0], Name: mf[1], File: filename, Line: r.line, Reachable: kw == "sweep-reachable"}
			pf := strings.Fields(props)
			if len(pf) > 1 {
				sw.Props = pf[1:]
			}
			f.Sweeps = append(f.Sweeps, sw)
			cur = nil
		case "splitpaths":
			cur.SplitPaths = true
		case "reach":
			cur.Reach = true
		case "why:":
			if cur != nil {
				cur.Why = rest
			}
		case "ghost":
			cur.Ghosts = append(cur.Ghosts, rest)
		case "requires", "ensures":
			if cur == nil {
				return nil, errf("%s outside func", kw)
			}
			c, err := mkClause(kw, rest)
			if err != nil {
				return nil, err
			}
			if kw == "requires" {
				cur.Requires = append(cur.Requires, c)
			} else {
				cur.Ensures = append(cur.Ensures, c)
			}
		case "panics":
			rest = strings.TrimSpace(strings.TrimPrefix(rest, "when"))
			c, err := mkClause("panics", rest)
			if err != nil {
				return nil, err
			}
			cur.Panics = append(cur.Panics, c)
		case "modifies":
			cur.HasMod = true
			if rest == "nothing" || rest == "" {
				break
			}
			for _, part := range splitTop(rest) {
				e, err := ParseExpr(part)
				if err != nil {
					return nil, errf("%v", err)
				}
				cur.Modifies = append(cur.Modifies, e)
			}
		case "loop":
			// loop K: invariant E | decreases E | unroll N
			m := regexp.MustCompile(`^(\d+)\s*:\s*(invariant|decreases|unroll)\s*(.*)$`).FindStringSubmatch(rest)
			if m == nil {
				return nil, errf("bad loop clause %q", rest)
			}
			k, _ := strconv.Atoi(m[1])
			ls := cur.Loops[k]
			if ls == nil {
				ls = &LoopSpec{}
				cur.Loops[k] = ls
			}
			switch m[2] {
			case "unroll":
				n, err := strconv.Atoi(strings.TrimSpace(m[3]))
				if err != nil {
					return nil, errf("bad unroll count")
				}
				ls.Unroll = n
			case "invariant":
				c, err := mkClause("invariant", m[3])
				if err != nil {
					return nil, err
				}
				ls.Invariants = append(ls.Invariants, c)
			case "decreases":
				c, err := mkClause("decreases", m[3])
				if err != nil {
					return nil, err
				}
				ls.Decreases = &c
			}
		case "at-call", "at-store":
			// at-call pattern[(argtype)][#k] [as label] [: assert|assume expr]
			head, tail, has := strings.Cut(rest, ": ")
			if !has {
				head, tail = rest, ""
			}
			ac := &AtCall{Action: "label"}
			hf := strings.Fields(head)
			if len(hf) == 0 {
				return nil, errf("bad %s", kw)
			}
			pat := hf[0]
			if len(hf) >= 3 && hf[1] == "as" {
				ac.Label = hf[2]
			}
			if i := strings.LastIndex(pat, "#"); i > 0 {
				n, err := strconv.Atoi(pat[i+1:])
				if err == nil {
					ac.Ordinal = n
					pat = pat[:i]
				}
			}
			if i := strings.Index(pat, "<"); i > 0 && strings.HasSuffix(pat, ">") {
				ac.ArgType = pat[i+1 : len(pat)-1]
				pat = pat[:i]
			}
			ac.Pattern = pat
			tail = strings.TrimSpace(tail)
			if tail != "" {
				tf := strings.Fields(tail)
				if tf[0] != "assert" && tf[0] != "assume" {
					return nil, errf("%s action must be assert/assume", kw)
				}
				ac.Action = tf[0]
				c, err := mkClause(kw, strings.TrimSpace(tail[len(tf[0]):]))
				if err != nil {
					return nil, err
				}
				ac.Clause = c
			}
			if kw == "at-call" {
				cur.AtCalls = append(cur.AtCalls, ac)
			} else {
				cur.AtStores = append(cur.AtStores, ac)
			}
		case "spec":
			// spec fn name(a T, b U) R = expr   |  spec pred name(a T) = expr
			m := regexp.MustCompile(`^(fn|pred)\s+(\w+)\s*\(([^)]*)\)\s*([^=]*?)\s*=\s*(.*)$`).FindStringSubmatch(rest)
			if m == nil {
				return nil, errf("bad spec fn %q", rest)
			}
			sf := &SpecFn{Name: m[2], Result: strings.TrimSpace(m[4]), Text: m[5], File: filename, Line: r.line}
			if m[1] == "pred" || sf.Result == "" {
				sf.Result = "bool"
			}
			for _, p := range strings.Split(m[3], ",") {
				p = strings.TrimSpace(p)
				if p == "" {
					continue
				}
				pf := strings.Fields(p)
				if len(pf) != 2 {
					return nil, errf("bad spec param %q", p)
				}
				sf.Params = append(sf.Params, Param{pf[0], pf[1]})
			}
			e, err := ParseExpr(m[5])
			if err != nil {
				return nil, errf("%v", err)
			}
			sf.Body = e
			f.SpecFns = append(f.SpecFns, sf)
			cur = nil
		case "ghostfield":
			if len(fields) < 3 {
				return nil, errf("ghostfield name type")
			}
			f.Ghosts[fields[1]] = strings.Join(fields[2:], "")
			cur = nil
		case "checks":
			for _, c := range fields[1:] {
				cur.Checks = append(cur.Checks, strings.Trim(c, ","))
			}
		case "ufn":
			m := regexp.MustCompile(`^(\w+)\s*\(([^)]*)\)\s*(.*)$`).FindStringSubmatch(rest)
			if m == nil {
				return nil, errf("bad ufn %q", rest)
			}
			sf := &SpecFn{Name: m[1], Result: strings.TrimSpace(m[3]), Text: "uninterpreted", File: filename, Line: r.line}
			for _, p := range strings.Split(m[2], ",") {
				p = strings.TrimSpace(p)
				if p == "" {
					continue
				}
				pf := strings.Fields(p)
				if len(pf) != 2 {
					return nil, errf("bad ufn param %q", p)
				}
				sf.Params = append(sf.Params, Param{pf[0], pf[1]})
			}
			f.SpecFns = append(f.SpecFns, sf)
			cur = nil
		case "regexlang":
			// regexlang Global == "regex" ; props Cxx
			m := regexp.MustCompile(`^(\w+)\s*==\s*("(?:[^"\\]|\\.)*")\s*;\s*props\s+(.*)$`).FindStringSubmatch(rest)
			if m == nil {
				return nil, errf("bad regexlang %q", rest)
			}
			sp, err := strconv.Unquote(m[2])
			if err != nil {
				return nil, errf("bad regexlang string: %v", err)
			}
			f.Regexes = append(f.Regexes, &RegexDecl{Global: m[1], Spec: sp, Props: strings.Fields(m[3]), Pkg: pkg, File: filename, Line: r.line})
			cur = nil
		case "recovers", "closure-only", "recovers-errors", "passed-only", "uses-param":
			// recovers F ; props Cxx      |      closure-only A in B, C ; props Cxx
			main, props, _ := strings.Cut(rest, ";")
			sd := &StructDecl{Kind: kw, Pkg: pkg, File: filename, Line: r.line}
			pf := strings.Fields(props)
			if len(pf) > 1 {
				sd.Props = pf[1:]
			}
			main = strings.TrimSpace(main)
			if kw == "closure-only" {
				a, b, ok := strings.Cut(main, " in ")
				if !ok {
					return nil, errf("closure-only A in B, C")
				}
				sd.Args = append(sd.Args, strings.TrimSpace(a))
				for _, x := range strings.Split(b, ",") {
					if x = strings.TrimSpace(x); x != "" {
						sd.Args = append(sd.Args, x)
					}
				}
			} else if kw == "uses-param" {
				// uses-param F name : the named parameter of F is actually used by its body
				mf := strings.Fields(main)
				if len(mf) != 2 {
					return nil, errf("uses-param F name")
				}
				sd.Args = mf
			} else if kw == "passed-only" {
				// passed-only A to F : the closure A is created once and its only use is as an argument of a direct call of F
				a, b, ok := strings.Cut(main, " to ")
				if !ok {
					return nil, errf("passed-only A to F")
				}
				sd.Args = []string{strings.TrimSpace(a), strings.TrimSpace(b)}
			} else {
				sd.Args = []string{main}
			}
			f.Structs = append(f.Structs, sd)
			cur = nil
		case "axiom":
			c, err := mkClause("axiom", rest)
			if err != nil {
				return nil, err
			}
			f.Axioms = append(f.Axioms, c)
		case "guarded_by":
			// guarded_by Struct.lock : f1, f2
			head, tail, ok := strings.Cut(rest, ":")
			if !ok {
				return nil, errf("bad guarded_by")
			}
			st, lock, ok := strings.Cut(strings.TrimSpace(head), ".")
			if !ok {
				return nil, errf("guarded_by needs Struct.lockfield")
			}
			g := &Guard{Struct: normStruct(st), Lock: lock, Pkg: pkg, File: filename, Line: r.line}
			for _, x := range strings.Split(tail, ",") {
				if x = strings.TrimSpace(x); x != "" {
					g.Fields = append(g.Fields, x)
				}
			}
			f.Guards = append(f.Guards, g)
			cur = nil
		case "monitor":
			// monitor Struct.lock (recv) : expr
			head, tail, ok := strings.Cut(rest, ":")
			if !ok {
				return nil, errf("bad monitor")
			}
			hf := strings.Fields(head)
			st, lock, ok := strings.Cut(hf[0], ".")
			if !ok || len(hf) < 2 {
				return nil, errf("monitor needs Struct.lockfield (recv)")
			}
			c, err := mkClause("monitor", tail)
			if err != nil {
				return nil, err
			}
			f.Monitors = append(f.Monitors, &Monitor{Struct: normStruct(st), Lock: lock, Recv: strings.Trim(hf[1], "()"), Clause: c, Pkg: pkg})
			cur = nil
		case "census":
			// census callee : only-in f1, f2 ; props C44
			head, tail, ok := strings.Cut(rest, ":")
			if !ok {
				return nil, errf("bad census")
			}
			cs := &Census{Callee: strings.TrimSpace(head), Pkg: pkg, File: filename, Line: r.line}
			main, props, _ := strings.Cut(tail, ";")
			main = strings.TrimSpace(strings.TrimPrefix(strings.TrimSpace(main), "only-in"))
			for _, x := range strings.Split(main, ",") {
				if x = strings.TrimSpace(x); x != "" {
					cs.OnlyIn = append(cs.OnlyIn, x)
				}
			}
			pf := strings.Fields(props)
			if len(pf) > 1 {
				cs.Props = pf[1:]
			}
			f.Census = append(f.Census, cs)
			cur = nil
		default:
			return nil, errf("unknown clause %q", kw)
		}
	}
	return f, nil
}

func normStruct(s string) string {
	s = strings.TrimSpace(s)
	s = strings.TrimPrefix(s, "(*")
	s = strings.TrimPrefix(s, "(")
	s = strings.TrimSuffix(s, ")")
	return s
}

// splitTop splits on commas that are not nested in brackets/parens.
func splitTop(s string) []string {
	var out []string
	depth := 0
	start := 0
	for i, c := range s {
		switch c {
		case '(', '[':
			depth++
		case ')', ']':
			depth--
		case ',':
			if depth == 0 {
				out = append(out, strings.TrimSpace(s[start:i]))
				start = i + 1
			}
		}
	}
	if t := strings.TrimSpace(s[start:]); t != "" {
		out = append(out, t)
	}
	return out
}

// RegexDecl: the language of a compiled constant pattern equals the language of Spec.
type RegexDecl struct {
	Global string
	Spec   string
	Props  []string
	Pkg    string
	File   string
	Line   int
}
