// Package spec: contract language (Gobra-style //@ comments): expression AST + parser.
package spec

import (
	"fmt"
	"strconv"
	"strings"
	"unicode"
)

// Expr is a node of the specification expression language.
type Expr struct {
	Op   string  // "lit","str","id","sel","idx","slice","call","un","bin","forall","exists","ghost"
	Tok  string  // operator / identifier / literal text / field name
	Args []*Expr // operands
	// quantifiers: Tok = bound variable, Type = its type text
	Type string
	Pos  int
}

func (e *Expr) String() string {
	if e == nil {
		return "<nil>"
	}
	switch e.Op {
	case "lit", "id":
		return e.Tok
	case "str":
		return strconv.Quote(e.Tok)
	case "sel":
		return e.Args[0].String() + "." + e.Tok
	case "ghost":
		return e.Args[0].String() + ".@" + e.Tok
	case "idx":
		return e.Args[0].String() + "[" + e.Args[1].String() + "]"
	case "slice":
		lo, hi := "", ""
		if e.Args[1] != nil {
			lo = e.Args[1].String()
		}
		if e.Args[2] != nil {
			hi = e.Args[2].String()
		}
		return e.Args[0].String() + "[" + lo + ":" + hi + "]"
	case "call":
		var a []string
		for _, x := range e.Args[1:] {
			a = append(a, x.String())
		}
		return e.Args[0].String() + "(" + strings.Join(a, ", ") + ")"
	case "un":
		return e.Tok + e.Args[0].String()
	case "bin":
		return "(" + e.Args[0].String() + " " + e.Tok + " " + e.Args[1].String() + ")"
	case "forall", "exists":
		return e.Op + " " + e.Tok + " " + e.Type + " :: " + e.Args[0].String()
	}
	return "?"
}

type token struct {
	kind string // "id","num","str","chr","op","eof"
	text string
	pos  int
}

func lex(s string) ([]token, error) {
	var toks []token
	i := 0
	ops := []string{"<==>", "==>", "&&", "||", "==", "!=", "<=", ">=", "<<", ">>", "&^", "::", ".@", "++"}
	for i < len(s) {
		c := s[i]
		if c == ' ' || c == '\t' || c == '\n' {
			i++
			continue
		}
		if c == '/' && i+1 < len(s) && s[i+1] == '/' { // trailing comment
			break
		}
		if unicode.IsLetter(rune(c)) || c == '_' {
			j := i
			for j < len(s) && (unicode.IsLetter(rune(s[j])) || unicode.IsDigit(rune(s[j])) || s[j] == '_' || s[j] == '$' || s[j] == '#') {
				j++
			}
			toks = append(toks, token{"id", s[i:j], i})
			i = j
			continue
		}
		if unicode.IsDigit(rune(c)) {
			j := i
			for j < len(s) && (unicode.IsLetter(rune(s[j])) || unicode.IsDigit(rune(s[j])) || s[j] == '_') {
				j++
			}
			toks = append(toks, token{"num", strings.ReplaceAll(s[i:j], "_", ""), i})
			i = j
			continue
		}
		if c == '"' {
			j := i + 1
			for j < len(s) && s[j] != '"' {
				if s[j] == '\\' {
					j++
				}
				j++
			}
			if j >= len(s) {
				return nil, fmt.Errorf("unterminated string at %d", i)
			}
			u, err := strconv.Unquote(s[i : j+1])
			if err != nil {
				return nil, fmt.Errorf("bad string %s: %v", s[i:j+1], err)
			}
			toks = append(toks, token{"str", u, i})
			i = j + 1
			continue
		}
		if c == '\'' {
			j := i + 1
			for j < len(s) && s[j] != '\'' {
				if s[j] == '\\' {
					j++
				}
				j++
			}
			if j >= len(s) {
				return nil, fmt.Errorf("unterminated char at %d", i)
			}
			r, _, _, err := strconv.UnquoteChar(s[i+1:j], '\'')
			if err != nil {
				return nil, err
			}
			toks = append(toks, token{"num", strconv.Itoa(int(r)), i})
			i = j + 1
			continue
		}
		matched := false
		for _, op := range ops {
			if strings.HasPrefix(s[i:], op) {
				toks = append(toks, token{"op", op, i})
				i += len(op)
				matched = true
				break
			}
		}
		if matched {
			continue
		}
		toks = append(toks, token{"op", string(c), i})
		i++
	}
	toks = append(toks, token{"eof", "", len(s)})
	return toks, nil
}

type parser struct {
	toks []token
	p    int
	src  string
}

func (p *parser) peek() token { return p.toks[p.p] }
func (p *parser) next() token { t := p.toks[p.p]; p.p++; return t }
func (p *parser) isOp(s string) bool {
	t := p.peek()
	return t.kind == "op" && t.text == s
}
func (p *parser) expectOp(s string) error {
	if !p.isOp(s) {
		return fmt.Errorf("expected %q at %d in %q (got %q)", s, p.peek().pos, p.src, p.peek().text)
	}
	p.next()
	return nil
}

// ParseExpr parses a specification expression.
func ParseExpr(s string) (*Expr, error) {
	toks, err := lex(s)
	if err != nil {
		return nil, err
	}
	p := &parser{toks: toks, src: s}
	e, err := p.parseExpr(0)
	if err != nil {
		return nil, err
	}
	if p.peek().kind != "eof" {
		return nil, fmt.Errorf("unexpected %q at %d in %q", p.peek().text, p.peek().pos, s)
	}
	return e, nil
}

// binary precedence (higher binds tighter)
var prec = map[string]int{
	"<==>": 1, "==>": 2, "||": 3, "&&": 4,
	"==": 5, "!=": 5, "<": 5, "<=": 5, ">": 5, ">=": 5,
	"+": 6, "-": 6, "|": 6, "^": 6, "++": 6,
	"*": 7, "/": 7, "%": 7, "<<": 7, ">>": 7, "&": 7, "&^": 7,
}

func (p *parser) parseExpr(minPrec int) (*Expr, error) {
	lhs, err := p.parseUnary()
	if err != nil {
		return nil, err
	}
	for {
		t := p.peek()
		if t.kind != "op" {
			break
		}
		pr, ok := prec[t.text]
		if !ok || pr < minPrec {
			break
		}
		p.next()
		var rhs *Expr
		if t.text == "==>" { // right associative
			rhs, err = p.parseExpr(pr)
		} else {
			rhs, err = p.parseExpr(pr + 1)
		}
		if err != nil {
			return nil, err
		}
		lhs = &Expr{Op: "bin", Tok: t.text, Args: []*Expr{lhs, rhs}, Pos: t.pos}
	}
	return lhs, nil
}

func (p *parser) parseUnary() (*Expr, error) {
	t := p.peek()
	if t.kind == "op" && (t.text == "!" || t.text == "-" || t.text == "^" || t.text == "&" || t.text == "*") {
		p.next()
		x, err := p.parseUnary()
		if err != nil {
			return nil, err
		}
		return &Expr{Op: "un", Tok: t.text, Args: []*Expr{x}, Pos: t.pos}, nil
	}
	if t.kind == "id" && (t.text == "forall" || t.text == "exists") {
		p.next()
		v := p.next()
		if v.kind != "id" {
			return nil, fmt.Errorf("quantifier variable expected in %q", p.src)
		}
		// type text up to '::'
		var ty []string
		for !p.isOp("::") {
			if p.peek().kind == "eof" {
				return nil, fmt.Errorf("'::' expected in quantifier in %q", p.src)
			}
			ty = append(ty, p.next().text)
		}
		p.next()
		body, err := p.parseExpr(0)
		if err != nil {
			return nil, err
		}
		return &Expr{Op: t.text, Tok: v.text, Type: strings.Join(ty, ""), Args: []*Expr{body}, Pos: t.pos}, nil
	}
	return p.parsePostfix()
}

func (p *parser) parsePostfix() (*Expr, error) {
	x, err := p.parsePrimary()
	if err != nil {
		return nil, err
	}
	for {
		t := p.peek()
		if t.kind != "op" {
			return x, nil
		}
		switch t.text {
		case ".":
			p.next()
			f := p.next()
			if f.kind != "id" && f.kind != "num" {
				return nil, fmt.Errorf("field name expected at %d in %q", f.pos, p.src)
			}
			x = &Expr{Op: "sel", Tok: f.text, Args: []*Expr{x}, Pos: t.pos}
		case ".@":
			p.next()
			f := p.next()
			x = &Expr{Op: "ghost", Tok: f.text, Args: []*Expr{x}, Pos: t.pos}
		case "[":
			p.next()
			var lo, hi *Expr
			// x[*] : all elements (frame locations)
			if p.isOp("*") && p.p+1 < len(p.toks) && p.toks[p.p+1].kind == "op" && p.toks[p.p+1].text == "]" {
				p.next()
				p.next()
				x = &Expr{Op: "idx", Args: []*Expr{x, {Op: "id", Tok: "*"}}, Pos: t.pos}
				continue
			}
			if !p.isOp(":") {
				lo, err = p.parseExpr(0)
				if err != nil {
					return nil, err
				}
			}
			if p.isOp(":") {
				p.next()
				if !p.isOp("]") {
					hi, err = p.parseExpr(0)
					if err != nil {
						return nil, err
					}
				}
				if err := p.expectOp("]"); err != nil {
					return nil, err
				}
				x = &Expr{Op: "slice", Args: []*Expr{x, lo, hi}, Pos: t.pos}
			} else {
				if err := p.expectOp("]"); err != nil {
					return nil, err
				}
				x = &Expr{Op: "idx", Args: []*Expr{x, lo}, Pos: t.pos}
			}
		case "(":
			p.next()
			args := []*Expr{x}
			for !p.isOp(")") {
				a, err := p.parseExpr(0)
				if err != nil {
					return nil, err
				}
				args = append(args, a)
				if p.isOp(",") {
					p.next()
				} else {
					break
				}
			}
			if err := p.expectOp(")"); err != nil {
				return nil, err
			}
			x = &Expr{Op: "call", Args: args, Pos: t.pos}
		default:
			return x, nil
		}
	}
}

func (p *parser) parsePrimary() (*Expr, error) {
	t := p.next()
	switch t.kind {
	case "num":
		return &Expr{Op: "lit", Tok: t.text, Pos: t.pos}, nil
	case "str":
		return &Expr{Op: "str", Tok: t.text, Pos: t.pos}, nil
	case "id":
		return &Expr{Op: "id", Tok: t.text, Pos: t.pos}, nil
	case "op":
		if t.text == "(" {
			e, err := p.parseExpr(0)
			if err != nil {
				return nil, err
			}
			if err := p.expectOp(")"); err != nil {
				return nil, err
			}
			return e, nil
		}
	}
	return nil, fmt.Errorf("unexpected %q at %d in %q", t.text, t.pos, p.src)
}
