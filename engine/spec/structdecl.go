package spec

// StructDecl is a structural obligation (decided on the SSA alone): "recovers F", "closure-only A in B, C".
type StructDecl struct {
	Kind  string
	Args  []string
	Props []string
	Pkg   string
	File  string
	Line  int
}
