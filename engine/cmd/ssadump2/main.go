package main

import (
	"os"
	"strings"

	"golang.org/x/tools/go/packages"
	"golang.org/x/tools/go/ssa"
	"golang.org/x/tools/go/ssa/ssautil"
)

func main() {
	cfg := &packages.Config{Mode: packages.LoadAllSyntax, Dir: "/repo", BuildFlags: []string{"-tags=verif"}}
	pkgs, err := packages.Load(cfg, os.Args[1])
	if err != nil {
		panic(err)
	}
	prog, _ := ssautil.AllPackages(pkgs, ssa.InstantiateGenerics)
	prog.Build()
	for fn := range ssautil.AllFunctions(prog) {
		if strings.Contains(fn.String(), os.Args[2]) {
			fn.WriteTo(os.Stdout)
		}
	}
}
