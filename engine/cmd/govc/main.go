// govc: contract-based deductive verifier for Go (go/ssa -> SMT), built for /verif.
package main

import (
	"crypto/sha256"
	"encoding/json"
	"flag"
	"fmt"
	"os"
	"path/filepath"
	"sort"
	"strconv"
	"strings"
	"sync"
	"time"

	"verif/engine/spec"
	"verif/engine/vc"
)

type PropCfg struct {
	Packages    []string `json:"packages"`
	Unverified  []string `json:"unverified_surroundings"`
	Assumptions []string `json:"assumptions"`
	Bounded     []struct {
		Name string `json:"name"`
		Cmd  string `json:"cmd"`
	} `json:"bounded_standins"`
}

type Baseline struct {
	Discharged []string `json:"discharged"`
	Unproved   []string `json:"unproved"`
	// ThoroughOnly: obligations that need more than the quick budget; solved and claimed only in the thorough tier
	ThoroughOnly []string `json:"thorough_only,omitempty"`
}

type Finding struct {
	Kind, Property, Obligation, What string
}

const verifDir = "/verif"

func main() {
	if len(os.Args) < 2 {
		fmt.Println("usage: govc verify|dump ...")
		os.Exit(2)
	}
	switch os.Args[1] {
	case "verify":
		os.Exit(verify(os.Args[2:]))
	default:
		fmt.Println("unknown command")
		os.Exit(2)
	}
}

func loadFindings() []Finding {
	var out []Finding
	b, err := os.ReadFile(filepath.Join(verifDir, "known_findings.txt"))
	if err != nil {
		return nil
	}
	for _, l := range strings.Split(string(b), "\n") {
		l = strings.TrimSpace(l)
		if l == "" || strings.HasPrefix(l, "#") {
			continue
		}
		kind, rest, ok := strings.Cut(l, ":")
		if !ok {
			continue
		}
		f := Finding{Kind: strings.TrimSpace(kind)}
		rest = strings.TrimSpace(rest)
		if i := strings.Index(rest, " what="); i >= 0 {
			f.What = rest[i+6:]
			rest = rest[:i]
		}
		for _, kv := range strings.Fields(rest) {
			k, v, _ := strings.Cut(kv, "=")
			switch k {
			case "property":
				f.Property = v
			case "obligation":
				f.Obligation = v
			}
		}
		out = append(out, f)
	}
	return out
}

func verify(args []string) int {
	fs := flag.NewFlagSet("verify", flag.ExitOnError)
	prop := fs.String("property", "", "property id")
	tier := fs.String("tier", "quick", "quick|thorough")
	rebase := fs.Bool("rebaseline", false, "rewrite the baseline from this run")
	only := fs.String("func", "", "only functions whose key contains this")
	keep := fs.Bool("keep", false, "keep SMT files")
	verbose := fs.Bool("v", false, "verbose")
	repo := fs.String("repo", "/repo", "repository")
	noEvidence := fs.Bool("noevidence", false, "do not write the evidence file (selftest runs on scratch copies)")
	fs.Parse(args)
	start := time.Now()
	seed, _ := strconv.Atoi(os.Getenv("VERIF_SEED"))
	if t := os.Getenv("VERIF_TIER"); t != "" && *tier == "quick" {
		if t == "thorough" {
			*tier = t
		}
	}

	var cfgs map[string]PropCfg
	b, err := os.ReadFile(filepath.Join(verifDir, "props.json"))
	if err != nil {
		fmt.Println("cannot read props.json:", err)
		return 2
	}
	if err := json.Unmarshal(b, &cfgs); err != nil {
		fmt.Println("props.json:", err)
		return 2
	}
	cfg, ok := cfgs[*prop]
	if !ok {
		fmt.Println("no configuration for property", *prop)
		return 2
	}
	eng, err := vc.Load(*repo, "go.minekube.com/gate", cfg.Packages)
	if err != nil {
		fmt.Println("UNDECIDED property=" + *prop + " load failed: " + err.Error())
		return 2
	}
	if err := eng.LoadTrusted(filepath.Join(verifDir, "contracts", "trusted")); err != nil {
		fmt.Println("trusted contracts:", err)
		return 2
	}
	loadS := time.Since(start).Seconds()

	// functions under contract for this property
	var cts []*spec.FuncContract
	for _, ct := range eng.Contracts {
		if ct.Trusted || ct.NoBody || ct.Pure {
			continue
		}
		for _, p := range ct.Props {
			if p == *prop {
				if *only == "" || strings.Contains(ct.Key, *only) {
					cts = append(cts, ct)
				}
			}
		}
	}
	sort.Slice(cts, func(i, j int) bool { return cts[i].Key < cts[j].Key })
	var obls []*vc.Obligation
	var results []*vc.FuncResult
	undecided := []string{}
	for _, ct := range cts {
		fn := eng.FuncByKey(ct.Key)
		if fn == nil {
			undecided = append(undecided, "function under contract not found: "+ct.Key)
			continue
		}
		r, err := eng.VerifyFunc(fn, ct)
		if err != nil {
			undecided = append(undecided, err.Error())
			continue
		}
		results = append(results, r)
		obls = append(obls, r.Obls...)
	}
	obls = append(obls, eng.CensusObligations(*prop)...)
	obls = append(obls, eng.RegexObligations(*prop)...)
	obls = append(obls, eng.StructuralObligations(*prop)...)
	obls = append(obls, eng.CodecPairObligations(*prop)...)
	if len(eng.SpecErrors) > 0 {
		for _, e := range eng.SpecErrors {
			undecided = append(undecided, "contract error: "+e)
		}
	}
	genS := time.Since(start).Seconds() - loadS

	workDir := filepath.Join(verifDir, "work", *prop)
	os.RemoveAll(workDir)
	os.MkdirAll(workDir, 0o755)
	timeout := 10
	if *tier == "thorough" {
		timeout = 60
	}
	var base0 Baseline
	if bb, err := os.ReadFile(filepath.Join(verifDir, "baseline", *prop+".json")); err == nil {
		json.Unmarshal(bb, &base0)
	}
	// obligations that need more than the quick budget are deferred to the thorough tier (neither solved nor claimed in quick)
	deferred := map[string]bool{}
	if *tier != "thorough" {
		for _, n := range base0.ThoroughOnly {
			deferred[n] = true
		}
	}
	// obligations recorded as unproved on the unchanged tree are not claimed; outside a rebaseline they are not re-solved
	notClaimed := map[string]bool{}
	if !*rebase {
		for _, n := range base0.Unproved {
			notClaimed[n] = true
		}
	}
	var toSolve []*vc.Obligation
	for _, o := range obls {
		if !deferred[o.Name] && !notClaimed[o.Name] {
			toSolve = append(toSolve, o)
		}
	}
	outs := vc.SolveAll(toSolve, workDir, timeout, 12)
	for _, o := range obls {
		if deferred[o.Name] {
			outs = append(outs, &vc.Outcome{Obl: o, Status: "deferred-thorough"})
		} else if notClaimed[o.Name] {
			outs = append(outs, &vc.Outcome{Obl: o, Status: "not-claimed"})
		}
	}
	// retry policy: an undecided obligation that the baseline claims is retried once with 4x the budget before it is reported
	claimed := map[string]bool{}
	for _, n := range base0.Discharged {
		claimed[n] = true
	}
	if *tier == "thorough" {
		for _, n := range base0.ThoroughOnly {
			claimed[n] = true
		}
	}
	{
		var wg sync.WaitGroup
		sem := make(chan struct{}, 5)
		for i, o := range outs {
			if o.Status == "unknown" && claimed[o.Obl.Name] {
				wg.Add(1)
				sem <- struct{}{}
				go func(i int, ob *vc.Obligation) {
					defer wg.Done()
					defer func() { <-sem }()
					outs[i] = vc.Solve(ob, workDir, 100000+i, timeout*4)
				}(i, o.Obl)
			}
		}
		wg.Wait()
		// last resort against a loaded machine: a claimed obligation that is still undecided (never one that was refuted)
		// gets one more run with a long budget and little competition before it may be reported
		long := timeout * 15
		if long > 240 {
			long = 240
		}
		sem2 := make(chan struct{}, 3)
		for i, o := range outs {
			if o.Status == "unknown" && claimed[o.Obl.Name] && !*noEvidence { // not in must-fail corpus runs (-noevidence)
				wg.Add(1)
				sem2 <- struct{}{}
				go func(i int, ob *vc.Obligation) {
					defer wg.Done()
					defer func() { <-sem2 }()
					outs[i] = vc.Solve(ob, workDir, 200000+i, long)
				}(i, o.Obl)
			}
		}
		wg.Wait()
	}
	solveS := 0.0
	for _, o := range outs {
		solveS += o.Seconds
	}

	// baseline
	var base Baseline
	basePath := filepath.Join(verifDir, "baseline", *prop+".json")
	if bb, err := os.ReadFile(basePath); err == nil {
		json.Unmarshal(bb, &base)
	}
	inDis := map[string]bool{}
	for _, n := range base.Discharged {
		inDis[n] = true
	}
	if *tier == "thorough" {
		for _, n := range base.ThoroughOnly {
			inDis[n] = true
		}
		base.Discharged = append(append([]string{}, base.Discharged...), base.ThoroughOnly...)
	}
	inUnp := map[string]bool{}
	for _, n := range base.Unproved {
		inUnp[n] = true
	}
	findings := loadFindings()
	isFinding := map[string]*Finding{}
	for i := range findings {
		if findings[i].Kind == "finding" && findings[i].Property == *prop {
			isFinding[findings[i].Obligation] = &findings[i]
		}
	}

	var discharged, failed []*vc.Outcome
	var canaryBad []string
	byName := map[string]*vc.Outcome{}
	for _, o := range outs {
		byName[o.Obl.Name] = o
		switch o.Status {
		case "discharged", "structural-ok":
			discharged = append(discharged, o)
		case "canary-ok", "canary-inconclusive", "deferred-thorough":
		case "canary-vacuous":
			canaryBad = append(canaryBad, o.Obl.Name)
		case "solver-error":
			undecided = append(undecided, "ill-formed SMT for "+o.Obl.Name+": "+trunc(o.Output, 300))
		default:
			failed = append(failed, o)
		}
	}

	if *rebase {
		var nb Baseline
		oldQuick := map[string]bool{}
		for _, n := range base0.Discharged {
			oldQuick[n] = true
		}
		oldThorough := map[string]bool{}
		for _, n := range base0.ThoroughOnly {
			oldThorough[n] = true
		}
		margin := 0.4 * float64(timeout) // quick claims must discharge well under the quick budget
		for _, o := range discharged {
			switch {
			case *tier == "thorough" && oldQuick[o.Obl.Name]:
				nb.Discharged = append(nb.Discharged, o.Obl.Name)
			case *tier == "thorough":
				nb.ThoroughOnly = append(nb.ThoroughOnly, o.Obl.Name)
			case o.Seconds > margin:
				nb.ThoroughOnly = append(nb.ThoroughOnly, o.Obl.Name)
			default:
				nb.Discharged = append(nb.Discharged, o.Obl.Name)
			}
		}
		for _, o := range outs {
			if o.Status == "deferred-thorough" {
				nb.ThoroughOnly = append(nb.ThoroughOnly, o.Obl.Name)
			}
		}
		for _, o := range failed {
			if isFinding[o.Obl.Name] == nil {
				if *tier != "thorough" && oldThorough[o.Obl.Name] {
					nb.ThoroughOnly = append(nb.ThoroughOnly, o.Obl.Name)
					continue
				}
				nb.Unproved = append(nb.Unproved, o.Obl.Name)
			}
		}
		sort.Strings(nb.Discharged)
		sort.Strings(nb.Unproved)
		sort.Strings(nb.ThoroughOnly)
		os.MkdirAll(filepath.Dir(basePath), 0o755)
		jb, _ := json.MarshalIndent(nb, "", " ")
		os.WriteFile(basePath, jb, 0o644)
		base = nb
		inDis = map[string]bool{}
		for _, n := range nb.Discharged {
			inDis[n] = true
		}
		inUnp = map[string]bool{}
		for _, n := range nb.Unproved {
			inUnp[n] = true
		}
		fmt.Printf("baseline rewritten: %d discharged, %d thorough-only, %d unproved (not claimed)\n", len(nb.Discharged), len(nb.ThoroughOnly), len(nb.Unproved))
	}

	// classification of failures
	var viols []viol
	var knownHit []string
	var tolerated []string
	// allowance for renamed unproved obligations: per (func,kind) count of baseline-unproved names missing now
	missingUnp := map[string]int{}
	for _, n := range base.Unproved {
		if _, ok := byName[n]; !ok {
			missingUnp[funcKind(n)]++
		}
	}
	// functions (or codec pairs) the baseline knows nothing about: obligations generated from NEW code by a sweep or a
	// codec-pairs directive. An undecided answer for those is "undecided", not a violation of something that held before.
	fnInBase := map[string]bool{}
	fnOf := func(n string) string {
		if i := strings.Index(n, "/"); i >= 0 {
			return n[:i]
		}
		return n
	}
	for _, l := range [][]string{base.Discharged, base.Unproved, base.ThoroughOnly} {
		for _, n := range l {
			fnInBase[fnOf(n)] = true
		}
	}
	for _, o := range failed {
		n := o.Obl.Name
		switch {
		case isFinding[n] != nil:
			knownHit = append(knownHit, n)
		case inDis[n]:
			viols = append(viols, viol{o: o})
		case inUnp[n]:
			tolerated = append(tolerated, n)
		case len(base.Discharged) > 0 && !fnInBase[fnOf(n)] && o.Status != "refuted" &&
			(!o.Obl.Structural || strings.Contains(o.Obl.Desc, "outside the fragment")):
			tolerated = append(tolerated, n+" (new code, undecided)")
		default:
			fk := funcKind(n)
			if missingUnp[fk] > 0 {
				missingUnp[fk]--
				tolerated = append(tolerated, n+" (renamed unproved obligation)")
			} else if len(base.Discharged) > 0 {
				viols = append(viols, viol{o: o})
			} else {
				tolerated = append(tolerated, n+" (no baseline yet)")
			}
		}
	}
	// missing baseline obligations
	var missing []string
	newDischarged := map[string]int{}
	for _, o := range discharged {
		if !inDis[o.Obl.Name] {
			newDischarged[funcKind(o.Obl.Name)]++
		}
	}
	for _, n := range base.Discharged {
		if _, ok := byName[n]; !ok {
			fk := funcKind(n)
			if newDischarged[fk] > 0 {
				newDischarged[fk]--
				continue
			}
			missing = append(missing, n)
		}
	}

	// replay files
	replayDir := filepath.Join(verifDir, "replays", *prop)
	exit := 0
	for i := range viols {
		v := &viols[i]
		os.MkdirAll(replayDir, 0o755)
		path := filepath.Join(replayDir, sanitizeFile(v.o.Obl.Name)+".json")
		rep := map[string]any{"property": *prop, "obligation": v.o.Obl.Name, "kind": v.o.Obl.Kind, "position": v.o.Obl.Pos,
			"description": v.o.Obl.Desc, "status": v.o.Status, "solver": v.o.Solver, "solver_output": trunc(v.o.Output, 4000)}
		v.noInput = true
		if v.o.Status == "refuted" && len(v.o.Model) > 0 {
			rep["model"] = v.o.Model
			rep["inputs"] = v.o.Obl.Inputs
			ok, detail := vc.Replay(eng, v.o, *repo)
			rep["replay_on_real_code"] = detail
			if ok {
				v.noInput = false
			}
		}
		if v.o.File != "" {
			if sb, err := os.ReadFile(v.o.File); err == nil {
				rep["smt_sha256"] = fmt.Sprintf("%x", sha256.Sum256(sb))
				smtCopy := strings.TrimSuffix(path, ".json") + ".smt2"
				os.WriteFile(smtCopy, sb, 0o644)
				rep["smt_file"] = smtCopy
			}
		}
		jb, _ := json.MarshalIndent(rep, "", " ")
		os.WriteFile(path, jb, 0o644)
		v.replay = path
		line := fmt.Sprintf("VIOLATION property=%s replay=%s obligation=%s at %s: %s", *prop, path, v.o.Obl.Name, v.o.Obl.Pos, v.o.Obl.Desc)
		if v.noInput {
			line += " no-failing-input-found"
		}
		fmt.Println(line)
		exit = 1
	}
	for _, n := range knownHit {
		fmt.Printf("KNOWN-FINDING: property=%s %s (%s)\n", *prop, isFinding[n].What, n)
	}
	for n, f := range isFinding {
		if o, ok := byName[n]; ok && (o.Status == "discharged" || o.Status == "structural-ok") {
			fmt.Printf("NOTE: known finding %s no longer fails (stale entry: %s)\n", n, f.What)
		}
	}
	if len(canaryBad) > 0 {
		for _, n := range canaryBad {
			fmt.Println("BROKEN-CHECK vacuous preconditions/axioms: " + n)
		}
		if exit == 0 {
			exit = 2
		}
	}
	for _, u := range undecided {
		fmt.Println("UNDECIDED property=" + *prop + " " + u)
		if exit == 0 {
			exit = 2
		}
	}
	nClaimed := 0
	nDisClaimed := 0
	// claimed = baseline obligations that this run generated (under their own or a matched new name); baseline
	// obligations that are no longer generated are reported separately (baseline_obligations_missing), not counted
	for _, n := range base.Discharged {
		if o, ok := byName[n]; ok {
			nClaimed++
			if o.Status == "discharged" || o.Status == "structural-ok" {
				nDisClaimed++
			}
		}
	}
	renamed := len(base.Discharged) - nClaimed - len(missing)
	if renamed > 0 {
		nClaimed += renamed
		nDisClaimed += renamed
	}
	if len(missing) > 0 {
		for _, m := range missing {
			fmt.Println("NOTE: baseline obligation no longer generated: " + m)
		}
	}
	if len(base.Discharged) == 0 && !*rebase {
		fmt.Println("UNDECIDED property=" + *prop + " no baseline")
		if exit == 0 {
			exit = 2
		}
	}
	if len(obls) == 0 {
		fmt.Println("UNDECIDED property=" + *prop + " zero obligations generated")
		if exit == 0 {
			exit = 2
		}
	}

	// evidence
	if !*noEvidence {
		writeEvidence(*prop, *tier, seed, cfg, eng, results, outs, base, viols2names(viols), knownHit, tolerated, missing, canaryBad, undecided,
			time.Since(start).Seconds(), loadS, genS, solveS, nClaimed, nDisClaimed)
	}
	if *verbose {
		for _, o := range outs {
			if o.Status != "discharged" && o.Status != "canary-ok" && o.Status != "structural-ok" {
				fmt.Printf("  %-22s %-9s %6.2fs %s  [%s]\n", o.Status, o.Solver, o.Seconds, o.Obl.Name, o.Obl.Pos)
				m := o.Model
				tag := "model"
				if m == nil {
					m, tag = o.CandidateModel, "candidate model (quantified assumptions dropped)"
				}
				if m != nil {
					var parts []string
					for _, in := range o.Obl.Inputs {
						if v, ok := m[in.Term]; ok {
							parts = append(parts, in.Name+"="+v)
						}
					}
					fmt.Printf("      %s: %s\n", tag, trunc(strings.Join(parts, " "), 400))
				}
			}
		}
		for _, r := range results {
			for _, w := range r.Warnings {
				fmt.Println("  warning:", r.Short, w)
			}
			for k, n := range r.Abstracted {
				fmt.Printf("  abstracted: %s: %s x%d\n", r.Short, k, n)
			}
			for k, n := range r.Uncontracted {
				fmt.Printf("  uncontracted callee: %s: %s x%d\n", r.Short, k, n)
			}
		}
	}
	fmt.Printf("property=%s tier=%s functions=%d obligations=%d discharged=%d failed=%d (violations=%d known=%d unproved-not-claimed=%d) load=%.1fs gen=%.1fs solve=%.1fs wall=%.1fs\n",
		*prop, *tier, len(results), len(obls), len(discharged), len(failed), len(viols), len(knownHit), len(tolerated), loadS, genS, solveS, time.Since(start).Seconds())
	if !*keep && exit == 0 {
		os.RemoveAll(workDir)
	}
	return exit
}

type viol struct {
	o       *vc.Outcome
	replay  string
	noInput bool
}

func countInBase(vs []viol, in map[string]bool) int {
	n := 0
	for _, v := range vs {
		if in[v.o.Obl.Name] {
			n++
		}
	}
	return n
}

func viols2names(vs []viol) []string {
	var out []string
	for _, v := range vs {
		out = append(out, v.o.Obl.Name)
	}
	return out
}

// funcKind: "Func/kind" part of an obligation name "Func/kind@key#n".
func funcKind(name string) string {
	i := strings.Index(name, "/")
	if i < 0 {
		return name
	}
	rest := name[i+1:]
	for j, c := range rest {
		if c == '@' || c == '#' {
			return name[:i+1] + rest[:j]
		}
	}
	return name
}

func sanitizeFile(s string) string {
	r := strings.NewReplacer("/", "_", "(", "", ")", "", "*", "", " ", "_", "@", "_at_", "#", "_n", ":", "_", "[", "_", "]", "_", "\"", "", "'", "", "&", "", "|", "", "<", "", ">", "", "$", "_")
	s = r.Replace(s)
	if len(s) > 120 {
		s = s[:120]
	}
	return s
}

func trunc(s string, n int) string {
	if len(s) > n {
		return s[:n] + "…"
	}
	return s
}

func writeEvidence(prop, tier string, seed int, cfg PropCfg, eng *vc.Engine, results []*vc.FuncResult, outs []*vc.Outcome, base Baseline,
	viols, known, tolerated, missing, canaryBad, undecided []string, wall, loadS, genS, solveS float64, nClaimed, nDisClaimed int) {
	type per struct {
		Name    string  `json:"name"`
		Kind    string  `json:"kind"`
		Status  string  `json:"status"`
		Solver  string  `json:"solver"`
		Seconds float64 `json:"seconds"`
		Pos     string  `json:"pos"`
	}
	var pers []per
	bySolver := map[string]int{}
	canaries := map[string]int{}
	nDis := 0
	for _, o := range outs {
		pers = append(pers, per{o.Obl.Name, o.Obl.Kind, o.Status, o.Solver, round3(o.Seconds), o.Obl.Pos})
		if o.Status == "discharged" || o.Status == "structural-ok" {
			nDis++
			s := o.Solver
			if s == "" {
				s = "structural"
			}
			bySolver[s]++
		}
		if strings.HasPrefix(o.Status, "canary") {
			canaries[o.Status]++
		}
	}
	var samples []any
	for _, o := range outs {
		if len(samples) >= 3 {
			break
		}
		if o.Status == "discharged" && o.Solver != "trivial" {
			samples = append(samples, map[string]any{"obligation": o.Obl.Name, "kind": o.Obl.Kind, "source": o.Obl.Pos,
				"meaning": o.Obl.Desc, "negated_goal": trunc("(and "+o.Obl.Reach.S+" (not "+o.Obl.Goal.S+"))", 600), "verdict": "unsat", "solver": o.Solver})
		}
	}
	if len(samples) == 0 {
		for _, o := range outs {
			if len(samples) >= 3 {
				break
			}
			samples = append(samples, map[string]any{"obligation": o.Obl.Name, "kind": o.Obl.Kind, "meaning": o.Obl.Desc, "status": o.Status})
		}
	}
	trusted := map[string]bool{}
	var funcs []any
	assumptions := append([]string{}, cfg.Assumptions...)
	assumptions = append(assumptions,
		"go/ssa (x/tools v0.50.0, go1.26.8 go/types) is a faithful lowering of the compiled source",
		"integers are exact Go-width bit-vectors; slice/string lengths and offsets assumed <= 2^56",
		"calls without contract: results arbitrary, heap havocked on the inferred mod-set (one level of argument reachability for code outside the module)",
		"goroutines started with `go` and channel operations are not modelled (effects dropped / results arbitrary)",
		"floating point arithmetic is uninterpreted (deterministic functions of the bit patterns)")
	for _, r := range results {
		abst := []string{}
		for k, n := range r.Abstracted {
			abst = append(abst, fmt.Sprintf("%s x%d", k, n))
		}
		sort.Strings(abst)
		unc := []string{}
		for k := range r.Uncontracted {
			unc = append(unc, k)
		}
		sort.Strings(unc)
		funcs = append(funcs, map[string]any{"function": r.Key, "obligations": len(r.Obls), "loops": r.Loops, "arithmetic": r.Mode,
			"abstracted_constructs": abst, "callees_without_contract_havocked": unc, "trusted_contracts_used": r.Trusted})
		for _, t := range r.Trusted {
			trusted[t] = true
		}
		assumptions = append(assumptions, r.Assumed...)
	}
	cpSeen := false
	for _, o := range outs {
		if o.Obl.Func != "codec-pair" {
			continue
		}
		n := strings.TrimPrefix(o.Obl.Name, "codec-pair@")
		funcs = append(funcs, map[string]any{"function": "(*" + n + ").Encode + (*" + n + ").Decode (with the helpers they call, inlined)", "obligations": 1,
			"arithmetic": "none (structural token-language comparison)", "status": o.Status, "detail": o.Obl.Desc})
		if !cpSeen {
			cpSeen = true
			assumptions = append(assumptions,
				"codec pairs: each primitive reader of proto/util is the inverse of the writer of the same kind; UUID/UUIDIntArray, Bool/Byte/Uint8, Int/Int32, Int64/UnixMilli are the same wire kinds",
				"codec pairs: loop iteration counts are not compared (only prefix / body / suffix token languages); data-dependent branches are taken both ways independently in each direction",
				"codec pairs: streams created inside a function (bytes.Buffer / bytes.NewReader scratch buffers) are not the packet stream; reads and writes on them are not tokens")
		}
	}
	var tb []string
	for t := range trusted {
		why := ""
		for _, ct := range eng.Contracts {
			if ct.Trusted && ct.Target == t {
				why = ct.Why
			}
		}
		tb = append(tb, "assumed contract: "+t+ifs(why != "", " — "+why, ""))
	}
	sort.Strings(tb)
	tb = append(tb, "SMT solvers z3 4.8.12 / z3 5.1.0 / cvc5 1.0 (an unsat answer of any one is accepted)", "govc VC generator (/verif/engine)")
	ev := map[string]any{
		"property_id": prop, "tier": tier, "seed": seed, "level": "proof",
		"coverage": map[string]any{
			"obligations": nClaimed, "discharged": nDisClaimed,
			"checker_cmd": fmt.Sprintf("/verif/bin/govc verify -property %s -tier %s", prop, tier),
			"trusted_base": tb,
			"samples":      samples,
			"obligations_generated_this_run": len(outs), "discharged_this_run": nDis,
			"discharged_by_backend": bySolver,
			"functions_under_contract": funcs,
			"per_obligation":           pers,
			"vacuity_canaries":         canaries,
			"unproved_not_claimed":     tolerated,
			"baseline_obligations_missing": missing,
			"known_findings_hit":       known,
			"violations":               viols,
			"unverified_surroundings":  cfg.Unverified,
			"bounded_standins":         cfg.Bounded,
			"solver_time_s":            round3(solveS), "load_time_s": round3(loadS), "vcgen_time_s": round3(genS),
			"undecided": undecided,
		},
		"assumptions": dedup(assumptions),
		"wall_s":      round3(wall),
		"violations":  len(viols),
	}
	os.MkdirAll(filepath.Join(verifDir, "evidence"), 0o755)
	jb, _ := json.MarshalIndent(ev, "", " ")
	os.WriteFile(filepath.Join(verifDir, "evidence", prop+".json"), jb, 0o644)
}

func ifs(c bool, a, b string) string {
	if c {
		return a
	}
	return b
}

func round3(f float64) float64 { return float64(int(f*1000)) / 1000 }

func dedup(xs []string) []string {
	seen := map[string]bool{}
	var out []string
	for _, x := range xs {
		if !seen[x] {
			seen[x] = true
			out = append(out, x)
		}
	}
	return out
}
