#!/usr/bin/env python3
"""mkmut.py <Cxx> <name> <repo-relative file> <old> <new> [count]: writes selftest/<Cxx>/<name>.patch replacing old by new (must-fail corpus).
Nothing in /repo is touched; the patch is a unified diff against the current working tree."""
import sys, os, subprocess, tempfile
pid, name, rel, old, new = sys.argv[1:6]
src = open('/repo/' + rel).read()
n = src.count(old)
if n == 0:
    sys.exit('old text not found in ' + rel)
if n > 1 and len(sys.argv) < 7:
    sys.exit('old text found %d times; give an occurrence index' % n)
idx = int(sys.argv[6]) if len(sys.argv) > 6 else 0
parts = src.split(old)
mut = old.join(parts[:idx + 1]) + new + old.join(parts[idx + 1:])
with tempfile.TemporaryDirectory() as d:
    a = os.path.join(d, 'a', rel); b = os.path.join(d, 'b', rel)
    os.makedirs(os.path.dirname(a)); os.makedirs(os.path.dirname(b))
    open(a, 'w').write(src); open(b, 'w').write(mut)
    r = subprocess.run(['diff', '-u', 'a/' + rel, 'b/' + rel], cwd=d, capture_output=True, text=True)
os.makedirs('/verif/selftest/' + pid, exist_ok=True)
open('/verif/selftest/%s/%s.patch' % (pid, name), 'w').write(r.stdout)
print('wrote selftest/%s/%s.patch (%d lines)' % (pid, name, r.stdout.count('\n')))
