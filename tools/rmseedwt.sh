#!/bin/bash
# rmseedwt.sh <Cxx>: removes the scratch worktree of mkseedwt.sh with its build output
git -C /repo worktree remove --force /tmp/seed-$1 2>/dev/null; rm -rf /tmp/seed-$1; git -C /repo worktree prune
