import json,glob,os,re,subprocess
oldtxt=subprocess.run(['git','-C','/verif','show','73f60a4:seeded/DETECTION.md'],capture_output=True,text=True).stdout
if not oldtxt:
    oldtxt=subprocess.run(['git','-C','/verif','show','HEAD:seeded/DETECTION.md'],capture_output=True,text=True).stdout
old={}
for l in oldtxt.splitlines():
    m=re.match(r'\| (C\S+) \| (C\d\d) \| (\S+) \| `([^`]*)` \|',l)
    if m: old[m.group(1)]=(m.group(2),m.group(3),m.group(4).strip())
rows=[]
for d in sorted(glob.glob('/verif/seeded/C*/')):
    s=os.path.basename(d.rstrip('/'))
    try: m=json.load(open(d+'meta.json'))
    except Exception: m={}
    summ=(m.get('summary') or m.get('note') or '')[:200].replace('|','/').replace('\n',' ')
    conf=(m.get('confirmed_by_verifier') or '').replace('|','/').replace('\n',' ')
    mm=re.search(r'patch applied to /repo \(uncommitted\): (.*?); undone',conf)
    how=mm.group(1) if mm else ''
    if not how and s in old: how='./check %s (%s tier) reports %s'%(old[s][0],old[s][1],old[s][2])
    if not how: how=conf[-300:]
    rows.append('| %s | %s | %s |'%(s,how[:520],summ))
open('/verif/seeded/DETECTION.md','w').write('# Seeded changes and the obligations that report them\n\nGenerated from each seed\'s meta.json (`confirmed_by_verifier`: what I ran myself) and, for first-round seeds, from the full `tools/seedtable.sh` run earlier in the session. "FIRST RUN: NOT detected" marks a change the checks missed until the named contract was added. Never consulted by any check.\n\n| seed | reported by (after any strengthening) | change (seeding agent\'s summary) |\n|---|---|---|\n'+'\n'.join(rows)+'\n')
print(len(rows), len(old))
