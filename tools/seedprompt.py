#!/usr/bin/env python3
"""seedprompt.py <Cxx>: prints the prompt for a mutation-seeding sub-agent (property text only, nothing from /verif)."""
import json, sys
pid = sys.argv[1]
p = [json.loads(l) for l in open('/verif/properties.jsonl') if json.loads(l)['id'] == pid][0]
anch = p['anchors']
print(f"""You are testing how well a verification effort detects realistic regressions in minekube/gate (a Go Minecraft reverse proxy).
You have your own scratch git worktree of the repository at /tmp/seed-{pid} (work ONLY there; never touch /repo or /verif; do not read /verif).

PROPERTY {pid}: {p['title']}
Statement: {p['statement']}
Quantified over: {p['quantifier']['text']}
Anchors (files): {', '.join(anch['files'])}
Mechanisms: {'; '.join(m['name'] + ' @ ' + m['where'] for m in anch.get('mechanism', []))}

TASK: produce ONE small change to the repository's non-test Go source (a plausible refactoring slip, off-by-one, wrong operator, dropped check, reordered statements, wrong variable, two cooperating sites that each look fine alone...) that BREAKS this property while
  (a) the repository still compiles (`go build ./...` in the worktree),
  (b) the existing test suite still passes (`go test -vet=off -count=1 ./pkg/...`, at least every package that depends on the file you changed; a network-dependent failure in pkg/edition/bedrock/geyser/managed is pre-existing and can be ignored),
  (c) the breakage needs something SPECIFIC to manifest (an unusual input, a particular value range, a multi-step sequence, a particular interleaving or fault) - NOT something ordinary use would expose at once.
Then write a demonstration: an in-package Go test file (name it zz_seed_demo_test.go, in the package of the changed code) that FAILS with your change and PASSES without it. Confirm both directions yourself by running it (use `git stash` / `git apply -R` to flip).

Environment: no network. Use plain `go` inside the worktree (it selects the right toolchain by itself); always pass `-vet=off -count=1` and a `-timeout`; set `GOFLAGS=-mod=mod GOPROXY=off` in the environment. Do NOT set GOSUMDB or GOTOOLCHAIN.

DELIVERABLES in /tmp/seed-out/{pid}/ :
  patch.diff            - `git diff` of ONLY the source change (not the demo test), applies with `git apply` at the worktree's HEAD
  zz_seed_demo_test.go  - the demonstration test
  meta.json             - {{"property":"{pid}","summary":...,"needs_to_manifest":...,"demo_path_in_repo":"<dir>/zz_seed_demo_test.go","demo_cmd":...,"ran":[what you ran and what it showed, both directions]}}
Leave the worktree clean when done (`git checkout -- . && git clean -fd`). Prefer a subtle change over an obvious one; make exactly one change set. Your final message should just summarise the change in 3-4 lines.""")
