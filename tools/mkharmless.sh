#!/bin/bash
# mkharmless.sh <Cxx> <name> <repo-relative file> <sed expression>: writes harmless/<Cxx>/<name>.patch (a behaviour-preserving edit that must NOT alarm)
ID="$1"; NAME="$2"; F="$3"; EXPR="$4"
T=$(mktemp -d); mkdir -p $T/a/$(dirname $F) $T/b/$(dirname $F) /verif/harmless/$ID
cp /repo/$F $T/a/$F; sed -E "$EXPR" /repo/$F > $T/b/$F
(cd $T && diff -u a/$F b/$F > /verif/harmless/$ID/$NAME.patch); rm -rf $T
wc -l /verif/harmless/$ID/$NAME.patch
