#!/bin/bash
# runs every claimed check (quick) sequentially; prints one line per property
cd /verif
for id in $(python3 -c "import json;print(' '.join(c['property_id'] for c in json.load(open('MANIFEST.json'))['checks']))"); do
  out=$(./check $id --tier quick 2>&1); rc=$?
  echo "$id rc=$rc $(echo "$out" | tail -1 | cut -c1-170)"
  if [ $rc -ne 0 ]; then echo "$out" | grep -E "VIOLATION|UNDECIDED|BROKEN|KNOWN" | head -5; fi
done
