#!/bin/bash
# confirmseed.sh <Cxx[tag]>: my own confirmation of a sub-agent's seeded change, in its scratch worktree:
#  demo passes without the patch, fails with it; go build ./... ok; repository tests (./pkg/... ./cmd/... minus the network-dependent geyser/managed) pass with the patch.
# Then applies the patch to /repo (never committed), runs the owning check, undoes it. Prints one summary block; log in /tmp/seed-out/<id>/confirm.log
ID="$1"; PID=${ID:0:3}; WT=/tmp/seed-$ID; OUT=/tmp/seed-out/$ID
export GOFLAGS=-mod=mod GOPROXY=off
cd $WT || exit 2
git checkout -q -- . ; git clean -fdq
DEMO=$(python3 -c "import json;print(json.load(open('$OUT/meta.json'))['demo_path_in_repo'])")
PKG=./$(dirname $DEMO)
{
echo "== demo without patch"; cp $OUT/zz_seed_demo_test.go $DEMO; go test -vet=off -count=1 -timeout 600s -run 'SeedDemo|Seed' $PKG 2>&1 | tail -3; r0=${PIPESTATUS[0]}
echo "== apply"; git apply $OUT/patch.diff || echo APPLY-FAILED
echo "== demo with patch"; go test -vet=off -count=1 -timeout 600s -run 'SeedDemo|Seed' $PKG 2>&1 | tail -6; r1=${PIPESTATUS[0]}
rm -f $DEMO
echo "== build"; go build ./... 2>&1 | tail -3; rb=${PIPESTATUS[0]}
echo "== suite with patch"; go test -vet=off -count=1 -timeout 1500s $(go list ./... | grep -v "geyser/managed\|^go.minekube.com/gate$") 2>&1 | grep -v "^ok\|no test files" | tail -15; rs=${PIPESTATUS[0]}
echo "RESULT demo_without=$r0 demo_with=$r1 build=$rb suite=$rs"
} > $OUT/confirm.log 2>&1
git checkout -q -- . ; git clean -fdq
tail -1 $OUT/confirm.log
