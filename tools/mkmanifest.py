#!/usr/bin/env python3
"""Regenerates /verif/MANIFEST.json from /verif/claims.json (claimed checks) and properties.jsonl."""
import json, subprocess
props=[json.loads(l) for l in open('/verif/properties.jsonl')]
claims=json.load(open('/verif/claims.json'))
hooks=subprocess.run(['git','-C','/repo','log','--format=%H %s'],capture_output=True,text=True).stdout.splitlines()
hook_commits=[l.split()[0] for l in hooks if l.split(' ',1)[1].startswith('verif:')]
m={"version":1,
 "setup_cmd":"cd /verif/engine && PATH=/opt/veriftools/go1.26.8/bin:$PATH GOFLAGS=-mod=mod GOPROXY=off GOSUMDB=off GOTOOLCHAIN=local go build -o /verif/bin/govc ./cmd/govc",
 "hooks":{"guard":"verif","enable":"-tags verif (contract files zz_verif_contracts.go are comment-only; lemma harness files zz_verif_lemmas.go contain Go code only compiled with the tag)",
          "baseline_off_cmd":"cd /repo && go test -mod=mod -json -vet=off -count=1 -timeout 25m ./...","source_commits":hook_commits,"add_only":True},
 "engines":[{"name":"govc","path":"/verif/engine","serves_properties":sorted(claims.keys()),
   "kind_free_text":"own weakest-precondition / passive VC generator over go/ssa for //@ contracts kept in /repo behind the verif build tag; every obligation is one SMT-LIB query raced on z3 4.8.12, z3 5.1.0 and cvc5 1.0"}],
 "checks":[], "not_applicable":[],
 "notes":"Contract-based deductive verification. ./check <id> --tier quick|thorough; thorough additionally runs the must-fail corpus (selftest/<id>/*.patch, seeded/<id>/patch.diff) on scratch copies. known_findings.txt lists genuine defects recorded rather than repaired."}
for p in props:
    i=p['id']
    if i in claims:
        c=claims[i]
        m['checks'].append({"property_id":i,"quick_cmd":"./check %s --tier quick"%i,"thorough_cmd":"./check %s --tier thorough"%i,
          "evidence_file":"/verif/evidence/%s.json"%i,"replay_cmd_template":"./check %s --replay {path}"%i,"engine":"govc",
          "level_claimed":{"category":"proof","text":c['text'],"design_ref":"DESIGN.md section 8, "+i},
          "level_note":c['note'],"technique":c.get('technique',"contract-based deductive verification: requires/ensures/loop contracts on the real functions, VCs generated from go/ssa, discharged by SMT (z3/cvc5)")})
    else:
        na=json.load(open('/verif/not_applicable.json'))
        m['not_applicable'].append({"property_id":i,"reason":na.get(i,"check not built yet in this session (engine and contracts are added property by property; see DESIGN.md 9.4)")})
json.dump(m,open('/verif/MANIFEST.json','w'),indent=1)
print(len(m['checks']),'checks,',len(m['not_applicable']),'not applicable')
