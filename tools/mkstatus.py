#!/usr/bin/env python3
"""Rewrites the per-property table of DESIGN.md section 10.1 (between the STATUS-TABLE markers) from baseline/, selftest/, seeded/, harmless/."""
import json,glob,os,re
rows=[];tot=[0,0,0,0,0,0]
for f in sorted(glob.glob('/verif/baseline/C*.json')):
    b=json.load(open(f)); i=os.path.basename(f)[:-5]
    r=[len(b.get('discharged') or []),len(b.get('thorough_only') or []),len(b.get('unproved') or []),
       len(glob.glob('/verif/selftest/%s/*.patch'%i)),len(glob.glob('/verif/seeded/%s*/patch.diff'%i)),len(glob.glob('/verif/harmless/%s/*.patch'%i))]
    rows.append("| %s | %d | %d | %d | %d | %d | %d |"%tuple([i]+r))
    tot=[a+b for a,b in zip(tot,r)]
tab="<!-- STATUS-TABLE-BEGIN -->\n| id | quick | thorough-only | unproved (not claimed) | must-fail patches | seeds | harmless patches |\n|---|---|---|---|---|---|---|\n"+"\n".join(rows)+"\n| **total** | %d | %d | %d | %d | %d | %d |\n<!-- STATUS-TABLE-END -->"%tuple(tot)
p='/verif/DESIGN.md'; s=open(p).read()
if 'STATUS-TABLE-BEGIN' in s:
    s=re.sub(r'<!-- STATUS-TABLE-BEGIN -->.*?<!-- STATUS-TABLE-END -->',lambda m:tab,s,flags=re.S)
else:
    s=re.sub(r'\| id \| quick \| thorough-only \| unproved \(not claimed\) \| must-fail patches \| seeds \|\n\|---\|---\|---\|---\|---\|---\|\n(\| C\d\d \|[^\n]*\n)+',lambda m:tab+"\n",s,count=1)
open(p,'w').write(s); print(tot)
