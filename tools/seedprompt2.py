#!/usr/bin/env python3
"""seedprompt2.py <Cxx> <tag>: second-round prompt (worktree /tmp/seed-<Cxx><tag>); names the files/functions the first-round
change touched so that the new change goes elsewhere. Nothing about /verif's checks is disclosed."""
import json, sys, re, subprocess, glob
pid, tag = sys.argv[1], sys.argv[2]
base = subprocess.run(['python3', '/verif/tools/seedprompt.py', pid], capture_output=True, text=True).stdout
base = base.replace('/tmp/seed-%s ' % pid, '/tmp/seed-%s%s ' % (pid, tag)).replace('/tmp/seed-out/%s/' % pid, '/tmp/seed-out/%s%s/' % (pid, tag))
prev = []
for d in sorted(glob.glob('/verif/seeded/%s*' % pid)):
    try:
        for l in open(d + '/patch.diff'):
            m = re.match(r'@@.*@@ (.*)', l)
            if l.startswith('+++ b/'): prev.append('file ' + l[6:].strip())
            elif m and m.group(1).strip(): prev.append('  in ' + m.group(1).strip())
    except Exception: pass
extra = "\nDIVERSITY: earlier changes for this property already touched:\n" + "\n".join(dict.fromkeys(prev)) + \
        "\nChoose a DIFFERENT function and a different failure mechanism (another clause of the statement, another code path) than those.\n"
print(base.rstrip() + "\n" + extra)
