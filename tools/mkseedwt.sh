#!/bin/bash
# mkseedwt.sh <Cxx>: scratch git worktree of /repo for a mutation-seeding sub-agent, with the contract files removed
# (local commit on a detached HEAD) so that what the agent writes is independent of /verif. Remove with rmseedwt.sh.
set -e
ID="$1"; WT=/tmp/seed-$ID
git -C /repo worktree add --detach "$WT" HEAD >/dev/null 2>&1
cd "$WT"
git rm -q $(git ls-files | grep 'zz_verif_') >/dev/null
git -c user.name=seed -c user.email=seed@example.invalid commit -q -m "scratch: contract files removed for seeding"
mkdir -p /tmp/seed-out/$ID
echo "$WT"
