#!/bin/bash
# re-solves everything and rewrites every claimed check's baseline (after engine changes); prints one line each
cd /verif
for id in $(python3 -c "import json;print(' '.join(c['property_id'] for c in json.load(open('MANIFEST.json'))['checks']))"); do
  out=$(./check $id --tier quick --rebaseline 2>&1); echo "$id $(echo "$out" | grep 'baseline rewritten')"
done
