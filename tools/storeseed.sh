#!/bin/bash
# storeseed.sh <Cxx> [suffix] "<what I ran to confirm>": keeps a confirmed sub-agent mutation as seeded/<Cxx>[suffix]/ and removes its scratch worktree
ID="$1"; SUF="$2"; CONF="$3"
D=/verif/seeded/$ID$SUF; mkdir -p $D
cp /tmp/seed-out/$ID/patch.diff $D/; cp /tmp/seed-out/$ID/zz_seed_demo_test.go $D/ 2>/dev/null
python3 - "$ID" "$D" "$CONF" <<'PY'
import json,sys
i,d,conf=sys.argv[1:4]
try: m=json.load(open('/tmp/seed-out/%s/meta.json'%i))
except Exception as e: m={"property":i,"note":"agent meta.json unreadable: %s"%e}
m['confirmed_by_verifier']=conf
json.dump(m,open(d+'/meta.json','w'),indent=1)
PY
/verif/tools/rmseedwt.sh $ID
ls $D
