#!/bin/bash
# Must-fail corpus: every patch in selftest/<id>/ (and seeded/<id>/patch.diff) is applied to a scratch copy of /repo;
# the quick check must turn red on it. A patch that stays green is a hole in the contracts and fails the run.
set -u
ID="$1"
cd /verif
SCR=$(mktemp -d "${TMPDIR:-/tmp}/verif-selftest-XXXXXX")
trap 'rm -rf "$SCR"' EXIT
rc=0
shopt -s nullglob
for p in selftest/$ID/*.patch seeded/$ID*/patch.diff; do
  rm -rf "$SCR/repo"; mkdir -p "$SCR/repo"
  (cd "${VERIF_REPO:-/repo}" && git ls-files -z --cached --others --exclude-standard | xargs -0 cp --parents -t "$SCR/repo" 2>/dev/null)
  if ! (cd "$SCR/repo" && patch -p1 -s < "/verif/$p"); then echo "SELFTEST $ID $p: patch does not apply (skipped)"; continue; fi
  out=$(VERIF_NO_EVIDENCE=1 bin/govc verify -property "$ID" -tier quick -repo "$SCR/repo" -noevidence 2>&1); c=$?
  if [ $c -eq 1 ]; then echo "SELFTEST $ID $p: detected"; else
    out2=$(bin/govc verify -property "$ID" -tier thorough -repo "$SCR/repo" -noevidence 2>&1); c2=$?
    if [ $c2 -eq 1 ]; then echo "SELFTEST $ID $p: detected (thorough tier only)"; else echo "SELFTEST $ID $p: NOT DETECTED (quick exit $c, thorough exit $c2)"; echo "$out2" | tail -3; rc=3; fi
  fi
done
exit $rc
