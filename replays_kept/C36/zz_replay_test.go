package gate

import (
	"testing"

	bconfig "go.minekube.com/gate/pkg/edition/bedrock/config"
	"go.minekube.com/gate/pkg/gate/config"
	"go.minekube.com/gate/pkg/util/configutil"
)

func TestZZReplayManagedSurvivesEmptyPatch(t *testing.T) {
	cur := config.DefaultConfig
	cur.Config.Bind = "0.0.0.0:25577"
	cur.Config.Bedrock.Enabled = true
	cur.Config.Bedrock.Managed = configutil.NewBoolOrStructBool[bconfig.ManagedGeyser](true)
	got, err := mergeConfigPatch(&cur, `{}`)
	if err != nil {
		t.Fatalf("empty patch refused: %v", err)
	}
	t.Logf("before: managed isBool=%v bool=%v ; after empty patch: isBool=%v bool=%v isNil=%v",
		cur.Config.Bedrock.Managed.IsBool(), cur.Config.Bedrock.Managed.BoolValue(),
		got.Config.Bedrock.Managed.IsBool(), got.Config.Bedrock.Managed.BoolValue(), got.Config.Bedrock.Managed.IsNil())
	js, _ := canonicalConfigJSON(&cur)
	t.Logf("canonical JSON of current: %s", js)
}
