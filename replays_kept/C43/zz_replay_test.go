package proxy

import (
	"bufio"
	"bytes"
	"encoding/json"
	_ "errors"
	"io"
	"net"
	"testing"
	"time"

	"go.minekube.com/gate/pkg/edition/java/config"
	"go.minekube.com/gate/pkg/edition/java/proto/version"
)

func seedVarInt(v int) []byte {
	var out []byte
	u := uint32(v)
	for {
		b := byte(u & 0x7f)
		u >>= 7
		if u != 0 {
			out = append(out, b|0x80)
			continue
		}
		return append(out, b)
	}
}

func seedFrame(payload []byte) []byte {
	return append(seedVarInt(len(payload)), payload...)
}

func seedReadVarInt(t *testing.T, rd *bufio.Reader) int {
	t.Helper()
	var result uint32
	for i := 0; i < 5; i++ {
		b, err := rd.ReadByte()
		if err != nil {
			t.Fatalf("reading varint: %v", err)
		}
		result |= uint32(b&0x7f) << (7 * i)
		if b&0x80 == 0 {
			return int(int32(result))
		}
	}
	t.Fatal("varint too long")
	return 0
}

func seedReadFrame(t *testing.T, rd *bufio.Reader) []byte {
	t.Helper()
	n := seedReadVarInt(t, rd)
	buf := make([]byte, n)
	if _, err := io.ReadFull(rd, buf); err != nil {
		t.Fatalf("reading frame body: %v", err)
	}
	return buf
}

// seedStatusExchange runs handshake -> status request -> ping against a classic
// mode proxy with no ping handlers and returns the ping reply's payload.
func seedStatusExchangeP(t *testing.T, clientProtocol int, pingPayload []byte) int {
	t.Helper()

	cfg := config.DefaultConfig
	cfg.OnlineMode = false
	cfg.Quota.Connections.Enabled = false
	cfg.Quota.Logins.Enabled = false
	cfg.PacketLimiter.PacketsPerSecond = -1
	cfg.PacketLimiter.BytesPerSecond = -1
	p, err := New(Options{Config: &cfg})
	if err != nil {
		t.Fatalf("New: %v", err)
	}

	server, client := net.Pipe()
	t.Cleanup(func() { _ = client.Close(); _ = server.Close() })
	done := make(chan struct{})
	go func() {
		defer close(done)
		p.HandleConn(server)
	}()

	_ = client.SetDeadline(time.Now().Add(10 * time.Second))
	rd := bufio.NewReader(client)

	// Handshake: id 0, protocol, address, port, next state = status.
	hs := []byte{0x00}
	hs = append(hs, seedVarInt(clientProtocol)...)
	host := "localhost"
	hs = append(hs, seedVarInt(len(host))...)
	hs = append(hs, host...)
	hs = append(hs, 0x63, 0xdd) // 25565
	hs = append(hs, seedVarInt(1)...)
	if _, err := client.Write(seedFrame(hs)); err != nil {
		t.Fatalf("write handshake: %v", err)
	}

	// Status request: id 0, no data.
	if _, err := client.Write(seedFrame([]byte{0x00})); err != nil {
		t.Fatalf("write status request: %v", err)
	}
	resp := seedReadFrame(t, rd)
	if len(resp) == 0 || resp[0] != 0x00 {
		t.Fatalf("expected status response (id 0), got % x", resp)
	}
	body := bufio.NewReader(bytes.NewReader(resp[1:]))
	strLen := seedReadVarInt(t, body)
	js := make([]byte, strLen)
	if _, err := io.ReadFull(body, js); err != nil {
		t.Fatalf("status json: %v", err)
	}
	var status struct {
		Version struct {
			Protocol int `json:"protocol"`
		} `json:"version"`
		Players struct {
			Online int `json:"online"`
		} `json:"players"`
	}
	if err := json.Unmarshal(js, &status); err != nil {
		t.Fatalf("status json %q: %v", js, err)
	}
	advertised := status.Version.Protocol
	if status.Players.Online != p.PlayerCount() {
		t.Fatalf("online = %d, want %d", status.Players.Online, p.PlayerCount())
	}

	_ = pingPayload
	return advertised
}

// The ordinary 9 byte ping (id + int64): echoed as is.
func TestZZReplayAdvertisedProtocol(t *testing.T) {
	for _, cp := range []int{int(version.Minecraft_1_20_2.Protocol), 9999, 6, 1} {
		got := seedStatusExchangeP(t, cp, nil)
		t.Logf("client protocol %d -> advertised %d (newest supported = %d)", cp, got, int(version.MaximumVersion.Protocol))
	}
}
