package bungeecord

import (
	"bytes"
	"net"
	"testing"

	"go.minekube.com/common/minecraft/component"
	"go.minekube.com/gate/pkg/edition/java/proto/packet/plugin"
	"go.minekube.com/gate/pkg/edition/java/proto/util"
	"go.minekube.com/gate/pkg/edition/java/proto/version"
	"go.minekube.com/gate/pkg/edition/java/proxy/message"
	"go.minekube.com/gate/pkg/gate/proto"
	"go.minekube.com/gate/pkg/util/uuid"
)

type rpServer struct {
	name string
	got  [][]byte
}

func (s *rpServer) Name() string     { return s.name }
func (s *rpServer) PlayerCount() int { return 0 }
func (s *rpServer) BroadcastPluginMessage(_ message.ChannelIdentifier, b []byte) {
	s.got = append(s.got, b)
}
func (s *rpServer) Connect(Player)                       {}
func (s *rpServer) Players() []Player                    { return nil }
func (s *rpServer) BroadcastMessage(component.Component) {}
func (s *rpServer) Addr() net.Addr                       { return &net.TCPAddr{} }

type rpConn struct{ pkts []proto.Packet }

func (c *rpConn) Name() string                       { return "lobby" }
func (c *rpConn) Protocol() proto.Protocol           { return version.Minecraft_1_20_2.Protocol }
func (c *rpConn) WritePacket(p proto.Packet) error   { c.pkts = append(c.pkts, p); return nil }
func (c *rpConn) BufferPacket(p proto.Packet) error  { return c.WritePacket(p) }
func (c *rpConn) Write([]byte) error                 { return nil }
func (c *rpConn) BufferPayload([]byte) error         { return nil }
func (c *rpConn) Flush() error                       { return nil }

type rpProviders struct {
	servers map[string]*rpServer
	conn    *rpConn
}

func (p *rpProviders) PlayerByName(n string) Player {
	if n == "other" {
		return rpPlayer{}
	}
	return nil
}
func (p *rpProviders) PlayerCount() int                     { return 0 }
func (p *rpProviders) Players() []Player                    { return nil }
func (p *rpProviders) BroadcastMessage(component.Component) {}
func (p *rpProviders) Server(name string) Server {
	if s, ok := p.servers[name]; ok {
		return s
	}
	return nil
}
func (p *rpProviders) Servers() []Server {
	var out []Server
	for _, s := range p.servers {
		out = append(out, s)
	}
	return out
}
func (p *rpProviders) ConnectedServer() ServerConnection { return p.conn }

type rpPlayer struct{}

func (rpPlayer) ID() uuid.UUID                    { return uuid.UUID{} }
func (rpPlayer) Username() string                 { return "me" }
func (rpPlayer) RemoteAddr() net.Addr             { return &net.TCPAddr{} }
func (rpPlayer) Disconnect(component.Component)   {}
func (rpPlayer) Protocol() proto.Protocol         { return version.Minecraft_1_20_2.Protocol }

func rpMessage(parts ...func(*bytes.Buffer)) *plugin.Message {
	b := new(bytes.Buffer)
	for _, p := range parts {
		p(b)
	}
	return &plugin.Message{Channel: "bungeecord:main", Data: b.Bytes()}
}
func utf(s string) func(*bytes.Buffer) { return func(b *bytes.Buffer) { _ = util.WriteUTF(b, s) } }
func i16(v int16) func(*bytes.Buffer)  { return func(b *bytes.Buffer) { _ = util.WriteInt16(b, v) } }
func raw(v []byte) func(*bytes.Buffer) { return func(b *bytes.Buffer) { b.Write(v) } }

// Forward: the target server gets channel (length-prefixed UTF), length, payload - unchanged.
func TestReplayC26ForwardLayout(t *testing.T) {
	srv := &rpServer{name: "games"}
	r := NewMessageResponder(rpPlayer{}, &rpProviders{servers: map[string]*rpServer{"games": srv}, conn: &rpConn{}})
	r.Process(rpMessage(utf("Forward"), utf("games"), utf("MyChannel"), i16(3), raw([]byte{1, 2, 3})))
	want := new(bytes.Buffer)
	utf("MyChannel")(want)
	i16(3)(want)
	want.Write([]byte{1, 2, 3})
	if len(srv.got) != 1 || !bytes.Equal(srv.got[0], want.Bytes()) {
		t.Fatalf("forwarded %v, want one payload %v", srv.got, want.Bytes())
	}
}

// Forward with a negative payload length must not crash.
func TestReplayC26ForwardNegativeLength(t *testing.T) {
	srv := &rpServer{name: "games"}
	r := NewMessageResponder(rpPlayer{}, &rpProviders{servers: map[string]*rpServer{"games": srv}, conn: &rpConn{}})
	r.Process(rpMessage(utf("Forward"), utf("games"), utf("MyChannel"), i16(-1)))
	if len(srv.got) != 0 && len(srv.got[0]) != 0 {
		t.Fatalf("forwarded %v for a malformed request", srv.got)
	}
}

// Message to an unknown server: no response and no crash.
func TestReplayC26MessageUnknownServer(t *testing.T) {
	r := NewMessageResponder(rpPlayer{}, &rpProviders{servers: map[string]*rpServer{}, conn: &rpConn{}})
	r.Process(rpMessage(utf("Message"), utf("nowhere"), utf("hello")))
}

// ForwardToPlayer names ANOTHER player: the payload lands on the responder's own backend connection.
func TestReplayC26ForwardToPlayerTarget(t *testing.T) {
	own := &rpConn{}
	r := NewMessageResponder(rpPlayer{}, &rpProviders{servers: map[string]*rpServer{}, conn: own})
	r.Process(rpMessage(utf("ForwardToPlayer"), utf("other"), utf("MyChannel"), i16(1), raw([]byte{7})))
	if len(own.pkts) != 0 {
		t.Fatalf("ForwardToPlayer for player %q wrote %d packet(s) to the REQUESTING player's own server connection", "other", len(own.pkts))
	}
}
